"""Wire / file shape of the serde-serialised structs, read off the DERIVED `Serialize` bodies (MIR): the member names actually
written (after `rename` / `rename_all`), in order, and which members are conditional (`skip_serializing_if`), with the predicate
used. Compared with a frozen oracle: RFC 8555 (sections 6.2, 7.1.2, 7.3, 7.3.4, 7.3.5, 7.3.6, 7.4), the acmed.toml(5) template
variables and the account file format of this tree. A member that silently disappears from a request, appears under another name,
or becomes conditional changes what the CA / the hook / the next start of the daemon sees, without any function body changing."""
from ..mir import op_const

ORACLE = {
    # RFC 8555 requests
    "acmed::acme_proto::structs::account::Account": [("contact", None), ("termsOfServiceAgreed", None), ("onlyReturnExisting", None), ("externalAccountBinding", "is_none")],
    "acmed::acme_proto::structs::account::AccountUpdate": [("contact", None)],
    "acmed::acme_proto::structs::account::AccountKeyRollover": [("account", None), ("oldKey", None)],
    "acmed::acme_proto::structs::account::AccountDeactivation": [("status", None)],
    "acmed::acme_proto::structs::order::NewOrder": [("identifiers", None), ("notBefore", "is_none"), ("notAfter", "is_none")],
    "acmed::acme_proto::structs::order::Identifier": [("type", None), ("value", None)],
    "acmed::jws::JwsData": [("protected", None), ("payload", None), ("signature", None)],
    "acmed::jws::JwsProtectedHeader": [("alg", None), ("jwk", "is_none"), ("kid", "is_none"), ("nonce", "is_none"), ("url", None)],
    # template variables (acmed.toml(5))
    "acmed::hooks::PostOperationHookData": [("identifiers", None), ("key_type", None), ("status", None), ("is_success", None), ("certificate_path", None), ("private_key_path", None), ("env", None)],
    "acmed::hooks::ChallengeHookData": [("identifier", None), ("identifier_tls_alpn", None), ("challenge", None), ("file_name", None), ("proof", None), ("raw_proof", None), ("is_clean_hook", None), ("env", None)],
    "acmed::hooks::FileStorageHookData": [("file_name", None), ("file_directory", None), ("file_path", None), ("env", None)],
    "acmed::storage::CertFileFormat": [("ext", None), ("file_type", None), ("key_type", None), ("name", None)],
    # account file
    "acmed::account::storage::AccountStorage": [("name", None), ("endpoints", None), ("contacts", None), ("current_key", None), ("past_keys", None), ("external_account", None)],
    "acmed::account::storage::AccountEndpointStorage": [("creation_date", None), ("account_url", None), ("orders_url", None), ("key_hash", None), ("contacts_hash", None), ("external_account_hash", None)],
    "acmed::account::storage::AccountKeyStorage": [("creation_date", None), ("key", None), ("signature_algorithm", None)],
    "acmed::account::storage::ExternalAccountStorage": [("identifier", None), ("key", None), ("signature_algorithm", None)],
}


def shapes(prog):
    """{adt: [(member name, None | predicate name)]} for every derived struct Serialize impl of the workspace"""
    out = {}
    for k, b in prog.bodies.items():
        if "serde::ser::Serialize for " not in k or not k.endswith("::serialize"):
            continue
        adt = k.split(" for ", 1)[1].rsplit(">::serialize", 1)[0]
        members = []
        skipped = set()
        preds = []
        for c in sorted(b.calls, key=lambda c: c.bb):
            n = (c.name or c.fn or "")
            m = n.rsplit("::", 1)[-1]
            names = [(op_const(a) or {}).get("str") for a in c.args]
            names = [x for x in names if x]
            if m == "skip_field" and names:
                skipped.add(names[0])
            elif m in ("serialize_field", "serialize_entry") and names:
                members.append(names[0])
            elif m in ("is_none", "is_empty", "is_some", "is_zero") or (c.exp and m not in ("serialize_struct", "end", "branch", "from_residual", "serialize_field", "skip_field") and "serde" not in n):
                preds.append(m)
        shape = []
        for nm in members:
            shape.append((nm, (preds.pop(0) if preds else "?") if nm in skipped else None))
        out[adt] = shape
    return out


def check_shapes(ctx, rid, adts):
    prog = ctx.prog
    got = shapes(prog)
    for adt in adts:
        want = ORACLE[adt]
        a = prog.adt(adt)
        at = "%s:%s" % (a["file"], a["line"]) if a else adt
        have = got.get(adt)
        if have is not None and not adt.startswith("acmed::account::storage::"):
            # JSON objects: member order is irrelevant; the account file (bincode) is positional
            have = sorted(have, key=lambda x: x[0])
            want = sorted(want, key=lambda x: x[0])
        ctx.require(rid, have == want, at, "%s is serialised as %s (expected %s)" % (adt.rsplit("::", 1)[1], have, want), [adt, "wire-shape"])


# what the derived Deserialize impls ACCEPT: member (or variant) names, and whether unknown members are tolerated — RFC 8555
# section 7.1: "clients MUST ignore any fields they do not recognise" (and RFC 7807 problem documents carry extension members)
READ_ORACLE = {
    "acmed::acme_proto::structs::account::AccountResponse": (["contact", "externalAccountBinding", "orders", "status", "termsOfServiceAgreed"], True),
    "acmed::acme_proto::structs::authorization::Authorization": (["challenges", "expires", "identifier", "status", "wildcard"], True),
    "acmed::acme_proto::structs::authorization::AuthorizationStatus": (["deactivated", "expired", "invalid", "pending", "revoked", "valid"], False),
    "acmed::acme_proto::structs::authorization::Challenge": (["Unknown", "dns-01", "http-01", "tls-alpn-01"], False),
    "acmed::acme_proto::structs::authorization::TokenChallenge": (["error", "status", "token", "url", "validated"], True),
    "acmed::acme_proto::structs::authorization::ChallengeStatus": (["invalid", "pending", "processing", "valid"], False),
    "acmed::acme_proto::structs::directory::DirectoryMeta": (["caaIdentities", "externalAccountRequired", "termsOfService", "website"], True),
    "acmed::acme_proto::structs::directory::Directory": (["keyChange", "meta", "newAccount", "newAuthz", "newNonce", "newOrder", "revokeCert"], True),
    "acmed::acme_proto::structs::error::HttpApiError": (["detail", "status", "type"], True),
    "acmed::acme_proto::structs::order::Order": (["authorizations", "certificate", "error", "expires", "finalize", "identifiers", "notAfter", "notBefore", "status"], True),
    "acmed::acme_proto::structs::order::OrderStatus": (["invalid", "pending", "processing", "ready", "valid"], False),
    "acmed::acme_proto::structs::order::Identifier": (["type", "value"], True),
    "acmed::identifier::IdentifierType": (["dns", "ip"], False),
    "acmed::account::storage::AccountStorage": (["contacts", "current_key", "endpoints", "external_account", "name", "past_keys"], True),
    "acmed::account::storage::AccountEndpointStorage": (["account_url", "contacts_hash", "creation_date", "external_account_hash", "key_hash", "orders_url"], True),
    "acmed::account::storage::AccountKeyStorage": (["creation_date", "key", "signature_algorithm"], True),
    "acmed::account::storage::ExternalAccountStorage": (["identifier", "key", "signature_algorithm"], True),
}


def read_shapes(prog):
    import json
    import re
    out = {}
    for k, b in prog.bodies.items():
        if "__FieldVisitor" not in k or not k.endswith("visit_str") or " for " not in k:
            continue
        adt = k.split(" for ", 1)[1].split(">", 1)[0]
        names = sorted(set(re.findall(r'"str": "([^"]*)"', json.dumps(b.raw["body"]))))
        fk = [a for a in prog.adts if a.endswith("__Field") and ("for %s>" % adt) in a]
        tolerant = bool(fk) and "__ignore" in [v["name"] for v in prog.adts[fk[0]]["variants"]]
        out[adt] = (names, tolerant)
    return out


def check_read_shapes(ctx, rid, adts):
    prog = ctx.prog
    got = read_shapes(prog)
    for adt in adts:
        want = READ_ORACLE[adt]
        a = prog.adt(adt)
        at = "%s:%s" % (a["file"], a["line"]) if a else adt
        have = got.get(adt)
        ctx.require(rid, have is not None and have[0] == want[0], at, "%s accepts the members %s (expected %s)" % (adt.rsplit("::", 1)[1], have[0] if have else None, want[0]), [adt, "read-names"])
        if want[1]:
            ctx.require(rid, have is not None and have[1], at, "%s ignores members it does not know (RFC 8555 7.1 / RFC 7807 extension members)" % adt.rsplit("::", 1)[1], [adt, "read-unknown-tolerated"])
