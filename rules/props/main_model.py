"""acmed's inner_main EVALUATED: the async body is interpreted with the command line answered by a model (clap's ArgMatches: every
option absent except `--root-cert`, which answers the given values) and MainEventLoop::new answered Ok or Err. Returns what the
start-up sequence did: which of MainEventLoop::new / clean_pid_file / process::exit / MainEventLoop::run were called, in order, and
the root-certificate list handed to MainEventLoop::new. Shared by C11 (a failed start-up ends the process without running) and
C18 (the command-line roots are exactly the --root-cert values, in order)."""
from ..absint import NONE_V, Interp, Val, async_state, marker, some, success_model, vbool, vstr

KEY = "acmed::inner_main"


def trace(prog, new_fails, root_values):
    """-> {"kind": run kind, "events": [names], "roots": [str] | None} or None when inner_main cannot be interpreted"""
    b = prog.async_body(KEY)
    if b is None:
        return None

    def model(cs, args):
        n = cs.name or ""
        if n.startswith("acmed::main_event_loop::MainEventLoop::new") and "{closure" in n:
            inner = Val("adt", [marker("E")], ("core::result::Result", "Err")) if new_fails else Val("adt", [marker("SRV")], ("core::result::Result", "Ok"))
            return Val("adt", [inner], ("core::task::poll::Poll", "Ready"))
        if n.endswith("ArgMatches::get_many") or n.endswith("ArgMatches::get_occurrences") or n.endswith("ArgMatches::try_get_many"):
            a1 = args[1].deref() if len(args) > 1 else None
            if a1 is not None and a1.k == "str" and a1.v == "root-cert" and root_values:
                v_ = some(Val("iter", [Val("ref", vstr(x)) for x in root_values]))
                return Val("adt", [v_], ("core::result::Result", "Ok")) if n.endswith("try_get_many") else v_
            return Val("adt", [NONE_V], ("core::result::Result", "Ok")) if n.endswith("try_get_many") else NONE_V
        if n.endswith("ArgMatches::get_one"):
            return NONE_V
        if n.endswith("ArgMatches::get_flag") or n.endswith("ArgMatches::contains_id"):
            return vbool(False)
        return None
    try:
        it = Interp(b, success_model(b, model), 600000)
        it.follow = lambda cs: (cs.name or "").startswith("acmed::") and not (cs.name or "").startswith(("acmed::main_event_loop::", "acmed::config::", "acmed::account::", "acmed::certificate::",
                                                                                                      "acmed::acme_proto::", "acmed::http::", "acmed::storage::", "acmed::hooks::", "acmed::endpoint::"))
        r = it.run({1: async_state(prog, KEY, lambda n_, t_, i_: None)})
    except Exception:
        return None
    ev, roots = [], None
    for cs, a, res in r.calls:
        n = cs.name or ""
        if n == "acmed::main_event_loop::MainEventLoop::new":
            ev.append("new")
            lst = a[1].deref() if len(a) > 1 else None
            if lst is not None and lst.k == "list" and all(x.deref().k == "str" for x in lst.v):
                roots = [x.deref().v for x in lst.v]
        elif n == "acmed::main_event_loop::MainEventLoop::run":
            ev.append("run")
        elif n.endswith("process::exit"):
            ev.append("exit")
        elif n.endswith("::clean_pid_file"):
            ev.append("clean_pid_file")
    return {"kind": r.kind, "events": ev, "roots": roots}
