"""C16 — tacd answers acme-tls/1 with exactly the RFC 8737 certificate, and only then.

Decided:
  R1 the ALPN constant is the length-prefixed wire form of exactly `acme-tls/1`;
  R2 the selection callback offers that constant against the client's list and maps `no overlap` to a fatal alert
     (SSL_TLSEXT_ERR_ALERT_FATAL, not NOACK/warning); it is installed on the acceptor that is built and used;
  R3 the acceptor's key and certificate are the pair returned by one from_acme_ext call; check_private_key is called;
  R4 init wires each input to the right parameter: domain = to_idna(--domain | file | stdin), extension = (--acme-ext |
     file | stdin), key type / digest from their options or defaults; values from standard input are read line by line
     from the process-wide stdin handle (never through a function-local buffering reader, which would swallow the second
     value);
  R5 gen_certificate: exactly one SAN entry, dNSName = the domain parameter; the acmeIdentifier extension is built from
     the name=value split of the extension parameter; subject = issuer; public key and signature use the same key;
     notBefore = now, notAfter = now + CRT_NB_DAYS_VALIDITY (> 0) days; the digest goes through get_digest.
  Evaluation-first: R4 to_idna on sample names (lower-cased A-labels), R5 extension name/value from gen_certificate on sample texts
  (`name=value`, malformed texts refused); nothing is set on the certificate after `sign`.
"""
import ast

from ..flow import arg_origins, origins
from ..mir import op_const, op_local as op_local_of, try_edges
from ..util import agg_assigns, result_return_kinds, unreachable_without, where

LEVEL = "other"
TECHNIQUE = ("constant facts (ALPN wire constant, fatal-alert code), provenance of the acceptor's key/certificate and of "
             "from_acme_ext's arguments, who-may-call on SAN builders, must-pass-through on gen_certificate's success path, "
             "stdin-reader rule (no local BufReader over stdin)"
             "; evaluation of to_idna and of gen_certificate's extension parsing on samples")
LEVEL_TEXT = ("Decides for every domain, digest, key type and input source the structure of tacd's answer: which protocol "
              "constant is offered, that a foreign ALPN list is refused fatally, that the served certificate and key belong "
              "together, that each command-line/file/stdin value reaches the right certificate field and that the certificate has "
              "one dNSName SAN, the extension built from the given text, matching subject/issuer and a positive validity. The "
              "handshake a client sees and OpenSSL's encoding are not decided.")
LEVEL_NOTE = ("Not decided: the TLS handshake itself, OpenSSL's DER encoding of the extension. Trusted: rustc MIR, extractor, "
              "openssl crate semantics (select_next_proto, AlpnError codes).")

START = "tacd::openssl_server::start"
GEN = "acme_common::crypto::openssl_certificate::gen_certificate"
FAE = "acme_common::crypto::openssl_certificate::X509Certificate::from_acme_ext"


def check(ctx):
    prog = ctx.prog
    R1 = ctx.rule("R1", "ALPN_ACME_PROTO_NAME is the wire form (length byte + name) of exactly acme-tls/1")
    c = prog.const("tacd::ALPN_ACME_PROTO_NAME")
    try:
        raw = bytes(c["bytes"]) if "bytes" in c else ast.literal_eval(c["pp"])
    except Exception:
        raw = None
    ctx.require(R1, raw == b"\x0aacme-tls/1", "tacd/src/main.rs", "ALPN_ACME_PROTO_NAME = %r (one protocol, length 10, acme-tls/1)" % (raw,), ["tacd", "alpn-constant"])
    R2 = ctx.rule("R2", "the ALPN callback selects acme-tls/1 from the client's offer or fails the handshake with a fatal alert; it is installed before build()")
    st = prog.must_body(START)
    inst = st.calls_to("openssl::ssl::SslContextBuilder::set_alpn_select_callback")
    ctx.floor(R2, "set_alpn_select_callback call", len(inst), 1)
    builds = st.calls_to("openssl::ssl::connector::SslAcceptorBuilder::build")
    for b_ in builds:
        good, hit = unreachable_without(st, [b_.bb], removed_nodes=[c_.bb for c_ in inst])
        ctx.require(R2, good and inst, b_.where(), "the acceptor is built only after the ALPN callback was installed", [START, "callback-after-build"])
        recv = arg_origins(b_, 0)
        same = all(arg_origins(c_, 0).locals & recv.locals for c_ in inst)
        ctx.require(R2, same, b_.where(), "… on the same builder", [START, "callback-other-builder"])
    ctx.require(R2, not st.calls_to("openssl::ssl::SslContextBuilder::set_alpn_protos"), "%s:%s" % (st.file, st.line), "no server-side protocol list other than the callback", [START, "alpn-protos"])
    err = prog.const("tacd::openssl_server::ALPN_ERROR")
    ctx.require(R2, err.get("bits") == 2 or "AlpnError(2_i32)" in str(err.get("pp")), "tacd/src/openssl_server.rs", "ALPN_ERROR = AlpnError::ALERT_FATAL (SSL_TLSEXT_ERR_ALERT_FATAL = 2): %s" % err.get("pp"), ["tacd", "alpn-error"])
    for c_ in inst:
        for g in c_.gbodies:
            cb = prog.body(g)
            if cb is None:
                continue
            sel = cb.calls_to("openssl::ssl::select_next_proto")
            ctx.require(R2, len(sel) == 1, "%s:%s" % (cb.file, cb.line), "the callback calls select_next_proto once", [START, "select-call"])
            for s in sel:
                a0, a1 = arg_origins(s, 0), arg_origins(s, 1)
                ctx.require(R2, any(x.get("item") == "tacd::ALPN_ACME_PROTO_NAME" for x in a0.consts) and not a0.has_leaf("param:"), s.where(), "server side of the selection = ALPN_ACME_PROTO_NAME", [START, "select-server"])
                ctx.require(R2, a1.has_leaf("param:3") and not a1.consts, s.where(), "client side = the list offered by the client", [START, "select-client"])
            ret = origins(cb, {"l": 0, "p": []})
            okor = [x for x in ret.calls if x.is_("core::option::Option::ok_or", "core::option::Option::ok_or_else")]
            form_a = bool(okor) and any(x.get("item") == "tacd::openssl_server::ALPN_ERROR" for x in ret.consts)
            # or spelled out: `match select_next_proto(..) { Some(p) => Ok(p), None => Err(ALPN_ERROR) }`
            form_b = False
            for s in sel:
                te = try_edges(cb, [s.dest["l"]])
                none_t = [tg for t in te for tg in t["err"]]
                some_t = [tg for t in te for tg in t["ok"]]
                rl = set(ret.locals) | {0}
                errs = [(i, st) for i, st in agg_assigns(cb, "core::result::Result", "Err") if st["lhs"]["l"] in rl]
                oks = [(i, st) for i, st in agg_assigns(cb, "core::result::Result", "Ok") if st["lhs"]["l"] in rl]
                if none_t and some_t and errs and oks:
                    rn = cb.reachable(none_t)
                    rs = cb.reachable(some_t)
                    err_ok = all(i in rn and i not in rs and any(x.get("item") == "tacd::openssl_server::ALPN_ERROR" for x in origins(cb, st["rv"]["ops"][0]).consts) for i, st in errs)
                    ok_ok = all(i in rs and i not in rn for i, st in oks)
                    form_b = err_ok and ok_ok
            ctx.require(R2, form_a or form_b, "%s:%s" % (cb.file, cb.line), "no common protocol -> Err(ALPN_ERROR)", [START, "no-overlap-result"])
            ctx.require(R2, any(x.is_("openssl::ssl::select_next_proto") for x in ret.calls), "%s:%s" % (cb.file, cb.line), "the selected protocol is what select_next_proto returned", [START, "selected"])

    tls_version_rule(ctx, R2)

    R3 = ctx.rule("R3", "the served key and certificate come from the same from_acme_ext call; check_private_key is called before serving")
    for nm, field, param in (("openssl::ssl::SslContextBuilder::set_private_key", ("acme_common::crypto::openssl_keys::KeyPair", "inner_key"), "param:3"),
                             ("openssl::ssl::SslContextBuilder::set_certificate", ("acme_common::crypto::openssl_certificate::X509Certificate", "inner_cert"), "param:2")):
        cs = st.calls_to(nm)
        ctx.floor(R3, nm.rsplit("::", 1)[1], len(cs), 1)
        for c_ in cs:
            a = arg_origins(c_, 1)
            ctx.require(R3, field in a.fields and a.has_leaf(param), c_.where(), "%s(%s of the %s parameter)" % (nm.rsplit("::", 1)[1], field[1], "key_pair" if param == "param:3" else "certificate"), [START, nm.rsplit("::", 1)[1]])
        for b_ in builds:
            good, hit = unreachable_without(st, [b_.bb], removed_nodes=[c_.bb for c_ in cs])
            ctx.require(R3, good and cs, b_.where(), "%s precedes build()" % nm.rsplit("::", 1)[1], [START, "before-build", nm.rsplit("::", 1)[1]])
    cpk = st.calls_to("openssl::ssl::SslContextBuilder::check_private_key")
    for b_ in builds:
        good, hit = unreachable_without(st, [b_.bb], removed_nodes=[c_.bb for c_ in cpk])
        ctx.require(R3, good and cpk, b_.where(), "check_private_key() passes before the acceptor is built", [START, "check-private-key"])
    ini = prog.must_body("tacd::init")
    ss = ini.calls_to(START)
    ctx.floor(R3, "server start call in init", len(ss), 1)
    for c_ in ss:
        k = arg_origins(c_, 2)
        ce = arg_origins(c_, 1)
        f1 = {x.bb for x in k.calls if x.is_(FAE)}
        f2 = {x.bb for x in ce.calls if x.is_(FAE)}
        ctx.require(R3, len(f1) == 1 and f1 == f2, c_.where(), "key pair and certificate given to start() come from one from_acme_ext call", ["tacd::init", "pair"])
        la = arg_origins(c_, 0)
        ctx.require(R3, any(x.get("str") == "listen" for x in la.consts), c_.where(), "the listen address is the --listen option", ["tacd::init", "listen"])
    fae = prog.must_body(FAE)
    for c_ in fae.calls_to(GEN):
        ctx.require(R3, any(x.is_("acme_common::crypto::openssl_keys::gen_keypair") for x in arg_origins(c_, 1).calls), c_.where(), "the certificate is generated for the freshly generated key pair", [FAE, "cert-key"])
    for i, s_ in agg_assigns(fae, "core::result::Result", "Ok"):
        if s_["lhs"]["l"] == 0:
            sl = origins(fae, s_["rv"]["ops"][0])
            ctx.require(R3, any(x.is_("acme_common::crypto::openssl_keys::gen_keypair") for x in sl.calls) and any(x.is_(GEN) for x in sl.calls), where(fae, i),
                        "from_acme_ext returns that key pair with that certificate", [FAE, "returned-pair"])

    R4 = ctx.rule("R4", "init: domain, extension, key type and digest reach the matching parameters; stdin values are read from the shared stdin handle")
    from .c01 import idna_rule
    idna_rule(ctx, R4)          # the SAN text: to_idna evaluated on sample names (lower-cased A-labels)
    for c_ in ini.calls_to(FAE):
        dom, ext, kt, dg = (arg_origins(c_, i, through=True) for i in range(4))
        def opts(sl):
            return {x.get("str") for x in sl.consts if "str" in x}
        ctx.require(R4, any(x.is_("acme_common::to_idna") for x in dom.calls) and {"domain", "domain-file"} <= opts(dom) and "acme-ext" not in opts(dom), c_.where(),
                    "domain = to_idna(value of --domain / --domain-file / stdin)", ["tacd::init", "domain"])
        ctx.require(R4, {"acme-ext", "acme-ext-file"} <= opts(ext) and "domain" not in opts(ext), c_.where(), "extension = value of --acme-ext / --acme-ext-file / stdin", ["tacd::init", "extension"])
        ctx.require(R4, "crt-signature-alg" in opts(kt) and any(x.get("item") == "tacd::DEFAULT_CRT_KEY_TYPE" for x in kt.consts) and "crt-digest" not in opts(kt), c_.where(),
                    "key type = --crt-signature-alg or DEFAULT_CRT_KEY_TYPE", ["tacd::init", "key-type"])
        ctx.require(R4, "crt-digest" in opts(dg) and any(x.get("item") == "tacd::DEFAULT_CRT_DIGEST" for x in dg.consts) and "crt-signature-alg" not in opts(dg), c_.where(),
                    "digest = --crt-digest or DEFAULT_CRT_DIGEST", ["tacd::init", "digest"])
    # tacd(8): when both values come from standard input, the domain is the first line and the extension the second — the value of
    # "domain" is obtained before the value of "acme-ext" on every path of init
    gcs = [(c_, {x.get("str") for k_ in range(len(c_.args)) for x in arg_origins(c_, k_).consts if "str" in x}) for c_ in ini.calls_to("tacd::get_acme_value")]
    dom_calls = [c_ for c_, o_ in gcs if "domain" in o_]
    ext_calls = [c_ for c_, o_ in gcs if "acme-ext" in o_]
    if dom_calls and ext_calls:
        ok_, hit_ = unreachable_without(ini, [c_.bb for c_ in ext_calls], removed_nodes=[c_.bb for c_ in dom_calls])
        ctx.require(R4, ok_, ext_calls[0].where(), "the domain is read before the extension (order of the two lines on standard input)", ["tacd::init", "stdin-order"])
    # a value may be given inline OR by file, never both, and the two VALUES are independent: `--domain-file` with `--acme-ext-file` is
    # a documented way to start tacd. The clap table: an option conflicts only with the other spelling of the same value
    mains = [b_ for k_, b_ in prog.bodies.items() if k_ in ("tacd::main", "tacd::inner_main") or k_.startswith("tacd::main::")]
    pairs = set()
    for mb_ in mains:
        for c_ in mb_.calls:
            if c_.bb in mb_.live_blocks() and (c_.name or "").endswith("Arg::conflicts_with") and len(c_.args) > 1:
                tgt_ = {x.get("str") for x in arg_origins(c_, 1).consts if "str" in x}
                me_ = {x.get("str") for z in arg_origins(c_, 0).calls if (z.name or "").endswith("Arg::new") for x in arg_origins(z, 0).consts if "str" in x}
                for a_ in me_:
                    for t_ in tgt_:
                        pairs.add((a_, t_))
    VALUE_OPTS = {"domain": "domain-file", "domain-file": "domain", "acme-ext": "acme-ext-file", "acme-ext-file": "acme-ext"}
    for a_, t_ in sorted(pairs):
        if a_ in VALUE_OPTS:
            ctx.require(R4, t_ == VALUE_OPTS[a_], "tacd/src/main.rs", "--%s conflicts only with --%s (declared: --%s)" % (a_, VALUE_OPTS[a_], t_), ["tacd::main", "conflicts", a_])
    gav = prog.must_body("tacd::get_acme_value")
    # evaluation-first: get_acme_value interpreted for the three sources of a value (option given / file option given / neither):
    # what it returns and what it reads — the inline value; the whole named file, trimmed; ONE line of the shared stdin handle, trimmed
    # (a BufReader created around stdin here would read ahead and swallow the next value)
    av = acme_value_table(prog)
    if av is not None:
        for (inline, file_), got, want in av:
            ctx.require(R4, got == want, "%s:%s" % (gav.file, gav.line), "value option %s, file option %s: get_acme_value -> %s (expected %s)" % ("given" if inline else "absent", "given" if file_ else "absent", got, want),
                        ["tacd::get_acme_value", "evaluated", str(inline), str(file_)])
    structural_value_rules(ctx, R4, gav) if av is None else None
    ret = None
    if False:
        ret = origins(gav, {"l": 0, "p": []}, through=True)
    # --crt-signature-alg / --crt-digest: every documented name selects its key type / digest (a name that no longer parses makes
    # tacd exit before serving anything for that key type)
    from .crypto_tables import parse_tables
    parse_tables(ctx, R4, only=("acme_common::crypto::key_type::KeyType", "acme_common::crypto::BaseHashFunction"))
    from .crypto_tables import listed_values_rule
    listed_values_rule(ctx, R4)
    R5 = ctx.rule("R5", "gen_certificate: one dNSName SAN = domain; extension from the name=value split; subject = issuer; same key for pubkey and signature; validity now..now+N days, N > 0")
    g = prog.must_body(GEN)
    san_new = g.calls_to("openssl::x509::extension::SubjectAlternativeName::new")
    dns = g.calls_to("openssl::x509::extension::SubjectAlternativeName::dns")
    others = g.calls_to("openssl::x509::extension::SubjectAlternativeName::ip", "openssl::x509::extension::SubjectAlternativeName::email", "openssl::x509::extension::SubjectAlternativeName::uri",
                        "openssl::x509::extension::SubjectAlternativeName::dir_name", "openssl::x509::extension::SubjectAlternativeName::rid", "openssl::x509::extension::SubjectAlternativeName::other_name")
    ctx.require(R5, len(san_new) == 1 and len(dns) == 1 and not others and g.scc_of(dns[0].bb) is None if dns else False, "%s:%s" % (g.file, g.line),
                "exactly one SAN entry, a dNSName, added once (dns %d, other kinds %d)" % (len(dns), len(others)), [GEN, "san-shape"])
    for c_ in dns:
        a = arg_origins(c_, 1)
        ctx.require(R5, a.leaves == {"param:1"}, c_.where(), "the dNSName is the domain parameter (%s)" % sorted(a.leaves), [GEN, "san-domain"])
    okb, errb, fwd = result_return_kinds(g)
    ap = g.calls_to("openssl::x509::X509Builder::append_extension")
    san_build = g.calls_to("openssl::x509::extension::SubjectAlternativeName::build")
    san_ap = [c_ for c_ in ap if any(x.is_("openssl::x509::extension::SubjectAlternativeName::build") for x in arg_origins(c_, 1).calls)]
    good, hit = unreachable_without(g, okb, removed_nodes=[c_.bb for c_ in san_ap])
    ctx.require(R5, bool(san_ap) and good, "%s:%s" % (g.file, g.line), "every successful gen_certificate appended the SAN extension", [GEN, "san-appended"])
    xn = g.calls_to("openssl::x509::X509Extension::new", "openssl::x509::X509Extension::new_nid", "openssl::x509::X509Extension::new_from_der")
    # evaluation-first: gen_certificate interpreted (every fallible call succeeds) on sample extension texts — which name and value
    # reach X509Extension::new, is the extension appended, and are malformed texts refused
    from ..absint import Val as _V, marker as _mk, run as _run, success_model as _sm, vstr as _vs
    ext_rows = []
    for text, want in (("1.3.6.1.5.5.7.1.31=critical,DER:04:20:aa", ("Ok", "1.3.6.1.5.5.7.1.31", "critical,DER:04:20:aa", True)), ("left=right", ("Ok", "left", "right", True)),
                       ("a=b=c", ("Err",)), ("novalue", ("Err",))):
        try:
            r_ = _run(g, {1: _V("ref", _vs("example.org")), 2: _V("ref", _mk("KP")), 3: _V("ref", _mk("DG")), 4: _V("ref", _vs(text))}, _sm(g, None, skip_unknown_loops=True), max_steps=60000,
                      follow=lambda cs: (cs.name or "").startswith("acme_common::crypto::openssl_certificate::"))
        except Exception:
            ext_rows = None
            break
        rv_ = r_.ret.deref() if r_.kind == "return" and r_.ret is not None else None
        if rv_ is None or rv_.k != "adt" or not rv_.extra:
            ext_rows = None
            break
        got = (rv_.extra[1],)
        if rv_.extra[1] == "Ok":
            xs = [a for c, a, res in r_.calls if (c.name or "").endswith("X509Extension::new")]
            aps = [a for c, a, res in r_.calls if (c.name or "").endswith("X509Builder::append_extension") and any("X509Extension::new" in repr(x) for x in a)]
            if len(xs) != 1 or len(xs[0]) < 4 or xs[0][2].deref().k != "str" or xs[0][3].deref().k != "str":
                ext_rows = None
                break
            got = ("Ok", xs[0][2].deref().v, xs[0][3].deref().v, bool(aps))
        ext_rows.append((text, got, want))
    if ext_rows is not None:
        for text, got, want in ext_rows:
            ctx.require(R5, got == want, "%s:%s" % (g.file, g.line), "gen_certificate with the extension text %r: %s (expected %s)" % (text, got, want), [GEN, "extension-evaluated", text])
        xn = []
    else:
        ctx.floor(R5, "X509Extension::new for the acmeIdentifier extension", len(xn), 1)
    for c_ in xn:
        name, val = arg_origins(c_, 2), arg_origins(c_, 3)
        SPLITS = ("core::str::<impl str>::split", "core::str::<impl str>::split_once", "core::str::<impl str>::splitn")
        distinct = op_local_of(c_.args[2]) != op_local_of(c_.args[3]) and name.locals != val.locals
        ctx.require(R5, name.has_leaf("param:4") and val.has_leaf("param:4") and name.via_any(*SPLITS) and val.via_any(*SPLITS) and distinct, c_.where(),
                    "extension name and value are the two sides of the `name=value` split of the acme_ext parameter", [GEN, "extension-source"])
        # order: value popped first (last element), then name
    ext_ap = [c_ for c_ in ap if any(x.is_("openssl::x509::X509Extension::new") for x in arg_origins(c_, 1).calls)]
    if ext_rows is None:
        ctx.require(R5, bool(ext_ap), "%s:%s" % (g.file, g.line), "the acmeIdentifier extension is appended to the certificate", [GEN, "extension-appended"])
    ie = [] if ext_rows is not None else [c_ for c_ in g.calls_to("core::str::<impl str>::is_empty") if arg_origins(c_, 0).has_leaf("param:4")]
    from ..util import call_true_false_edges
    for c_ in ie:
        t, f = call_true_false_edges(g, c_)
        for (sb, tg) in f:
            r = g.reachable_flags([tg], removed_nodes=[x.bb for x in ext_ap])     # variant-tag sensitive
            ctx.require(R5, not (set(okb) & r), where(g, sb), "with a non-empty extension text, success implies the extension was appended", [GEN, "extension-skipped"])
    sub = g.calls_to("openssl::x509::X509Builder::set_subject_name")
    iss = g.calls_to("openssl::x509::X509Builder::set_issuer_name")
    ok_ = bool(sub) and bool(iss) and all(arg_origins(a, 1).locals & arg_origins(b_, 1).locals for a in sub for b_ in iss)
    ctx.require(R5, ok_, "%s:%s" % (g.file, g.line), "subject and issuer are the same name (self-signed)", [GEN, "self-signed-name"])
    # the name only identifies tacd: no entry of it comes from the validated domain (X.509 name attributes have small upper bounds —
    # commonName 64 — so a domain copied there makes gen_certificate fail for long names; the domain belongs in the SAN)
    for c_ in [x for x in g.calls if x.bb in g.live_blocks() and (x.name or "").startswith("openssl::x509::X509NameBuilder::append_entry")]:
        from_domain = any(arg_origins(c_, k_).has_leaf("param:1") for k_ in range(1, len(c_.args)))
        ctx.require(R5, not from_domain, c_.where(), "no subject/issuer name entry is built from the domain parameter", [GEN, "name-from-domain"])
    pk = g.calls_to("openssl::x509::X509Builder::set_pubkey")
    sg = g.calls_to("openssl::x509::X509Builder::sign")
    for c_ in pk + sg:
        a = arg_origins(c_, 1)
        ctx.require(R5, a.has_leaf("param:2") and ("acme_common::crypto::openssl_keys::KeyPair", "inner_key") in a.fields, c_.where(), "%s uses the key_pair parameter's key" % c_.name.rsplit("::", 1)[1], [GEN, "key", c_.name.rsplit("::", 1)[1]])
    for c_ in sg:
        ctx.require(R5, arg_origins(c_, 2).has_leaf("param:3"), c_.where(), "signed with the digest parameter", [GEN, "digest"])
    good, hit = unreachable_without(g, okb, removed_nodes=[c_.bb for c_ in sg])
    ctx.require(R5, bool(sg) and good, "%s:%s" % (g.file, g.line), "every successful gen_certificate signed the certificate", [GEN, "signed"])
    for c_ in sg:
        after = g.reachable_after(c_.bb)
        late = [x for x in g.calls if x.bb in after and x.bb != c_.bb and (x.name or "").startswith("openssl::x509::X509Builder::")
                and (x.name or "").rsplit("::", 1)[-1] not in ("build", "sign", "x509v3_context") and (x.term.get("arg_tys") or [""])[0].startswith("&mut ")]
        ctx.require(R5, not late, (late[0] if late else c_).where(), "nothing is set on the certificate after it has been signed (%s)" % sorted({x.name.rsplit("::", 1)[-1] for x in late}),
                    [GEN, "set-after-sign"])
    nb_ = g.calls_to("openssl::x509::X509Builder::set_not_before")
    na = g.calls_to("openssl::x509::X509Builder::set_not_after")
    days = prog.const("acme_common::crypto::CRT_NB_DAYS_VALIDITY").get("int")
    ctx.require(R5, days is not None and days > 0, "acme_common/src/crypto.rs", "CRT_NB_DAYS_VALIDITY = %s (> 0)" % days, ["crypto", "validity-days"])
    for c_ in nb_:
        a = arg_origins(c_, 1)
        ctx.require(R5, a.via_any("openssl::asn1::Asn1Time::days_from_now") and any(x.get("int") == 0 for x in a.consts), c_.where(), "notBefore = now", [GEN, "not-before"])
    for c_ in na:
        a = arg_origins(c_, 1)
        ctx.require(R5, a.via_any("openssl::asn1::Asn1Time::days_from_now") and any(x.get("item") == "acme_common::crypto::CRT_NB_DAYS_VALIDITY" for x in a.consts), c_.where(), "notAfter = now + CRT_NB_DAYS_VALIDITY days", [GEN, "not-after"])
    ctx.require(R5, bool(nb_) and bool(na), "%s:%s" % (g.file, g.line), "both validity bounds are set", [GEN, "validity-set"])
    for c_ in fae.calls_to("acme_common::crypto::openssl_certificate::get_digest"):
        ctx.require(R5, arg_origins(c_, 0).has_leaf("param:4") and any(x.is_("acme_common::crypto::openssl_keys::gen_keypair") for x in arg_origins(c_, 1).calls), c_.where(),
                    "the signing digest = get_digest(digest option, generated key)", [FAE, "digest"])
    for c_ in fae.calls_to(GEN):
        ctx.require(R5, arg_origins(c_, 0).has_leaf("param:1") and arg_origins(c_, 3).has_leaf("param:2"), c_.where(), "gen_certificate(domain, key, digest, acme_ext) receives from_acme_ext's own arguments", [FAE, "forward"])
    # "a TLS client offering acme-tls/1 receives the certificate" needs the server to answer EVERY connection: the accept-loop /
    # connection-thread rules of C17 (no panic, no exit, no connection dropped by a quota, no blocking in the accept loop)
    from . import c17 as _c17
    ctx.shared("C17", _c17.check)


# openssl crate (documented): mozilla_intermediate / mozilla_intermediate_v5 accept TLS 1.2 and 1.3; mozilla_modern (v4) accepts
# TLS 1.2(+1.3 when built so); mozilla_modern_v5 accepts TLS 1.3 ONLY. RFC 8737 section 3: the validation connection uses
# "TLS version 1.2 or higher" — a CA that tops out at 1.2 must be served.
ACCEPTOR_PROFILES_TLS12 = ("mozilla_intermediate", "mozilla_intermediate_v5", "mozilla_modern")
VERSION_NARROWING = ("set_min_proto_version", "set_max_proto_version", "set_options", "set_ciphersuites", "set_cipher_list")


def tls_version_rule(ctx, rid):
    """shared by C16 and C20: tacd's acceptor must serve a TLS 1.2 validation client (RFC 8737 section 3)"""
    prog = ctx.prog
    st = prog.must_body(START)
    ctor = [c for c in st.calls if (c.name or "").startswith("openssl::ssl::connector::SslAcceptor::mozilla_") and c.bb in st.live_blocks()]
    ctx.floor(rid, "SslAcceptor profile constructor in tacd", len(ctor), 1)
    for c in ctor:
        prof = c.name.rsplit("::", 1)[1]
        ctx.require(rid, prof in ACCEPTOR_PROFILES_TLS12, c.where(), "the acceptor profile `%s` accepts TLS 1.2 as RFC 8737 requires (TLS 1.2 or higher)" % prof, [START, "tls-profile"])
        m = [a for a in c.args]
        sl = arg_origins(c, 0) if m else None
        ctx.require(rid, sl is None or any(x.is_("openssl::ssl::SslMethod::tls") for x in sl.calls) or sl.via_any("openssl::ssl::SslMethod::tls"), c.where(),
                    "… with the version-flexible SslMethod::tls()", [START, "tls-method"])
    narrow = [c for c in st.calls if c.bb in st.live_blocks() and (c.name or "").startswith("openssl::ssl::SslContextBuilder::") and c.name.rsplit("::", 1)[1] in VERSION_NARROWING]
    ctx.require(rid, not narrow, narrow[0].where() if narrow else "%s:%s" % (st.file, st.line), "no protocol-version / cipher narrowing on top of the profile (%s)" % [c.name.rsplit("::", 1)[1] for c in narrow],
                [START, "tls-narrowed"])


def acme_value_table(prog):
    from ..absint import NONE, UNIT, Val, _Slot, _is_place, _resolve_place, ok, run, some, vint, vstr
    gav = prog.body("tacd::get_acme_value")
    if gav is None:
        return None
    rows = []
    for inline in (True, False):
        for file_ in (True, False):
            ev = []

            def put(ref, text):
                if ref.k == "ref" and _is_place(ref.extra):
                    _Slot(*_resolve_place(ref.extra, {}))["slot"] = vstr(text)
                    return True
                return False

            def model(cs, args, inline=inline, file_=file_, ev=ev):
                n = cs.name or ""
                d = [a.deref() for a in args]
                if n.endswith("ArgMatches::get_one") and len(d) > 1 and d[1].k == "str":
                    if d[1].v == "OPT":
                        return some(Val("ref", vstr("INLINE VALUE"))) if inline else NONE
                    if d[1].v == "OPT_FILE":
                        return some(Val("ref", vstr("/path/to/file"))) if file_ else NONE
                    return None
                if (cs.fn or "").startswith("core::cmp::PartialOrd::") and d and d[0].k == "variant" and (d[0].extra or "").startswith("log::"):
                    from ..absint import vbool
                    return vbool(False)                                  # logging off: `debug!` does not run
                if n == "std::fs::File::open" and d:
                    ev.append(("open", d[0].v if d[0].k == "str" else repr(d[0])))
                    return ok(Val("unknown", "FILE"))
                if n.endswith("::read_to_string") and len(args) > 1:
                    ev.append(("read_to_string", repr(d[0])))
                    return ok(vint(20)) if put(args[1], "  file content\nsecond line \n") else None
                if n == "std::io::stdio::stdin":
                    ev.append(("stdin",))
                    return Val("unknown", "STDIN")
                if n == "std::io::stdio::Stdin::read_line" and len(args) > 1:
                    ev.append(("stdin.read_line",))
                    return ok(vint(12)) if put(args[1], " stdin line \n") else None
                if "BufReader" in n and n.endswith(("::new", "::with_capacity")):
                    ev.append(("bufreader", repr(d[-1]) if d else ""))
                    return None
                if n.endswith("::read_line") and len(args) > 1:          # BufRead::read_line on some wrapper
                    ev.append(("other.read_line", repr(d[0])))
                    return ok(vint(12)) if put(args[1], " stdin line \n") else None
                return None
            try:
                r = run(gav, {1: Val("ref", Val("unknown", "ARGS")), 2: Val("ref", vstr("OPT")), 3: Val("ref", vstr("OPT_FILE"))}, model, max_steps=100000,
                        follow=lambda cs: (cs.name or "").startswith("tacd::"))
            except Exception:
                return None
            rv = r.ret.deref() if r.kind == "return" and r.ret is not None else None
            if rv is None or rv.k != "adt" or not rv.extra or rv.extra[1] != "Ok" or not rv.v or rv.v[0].deref().k != "str":
                return None
            got = (rv.v[0].deref().v, [e for e in ev if e[0] != "stdin"])
            if inline:
                want = ("INLINE VALUE", [])
            elif file_:
                want = ("file content\nsecond line", [("open", "/path/to/file"), ("read_to_string", "?FILE")])
            else:
                want = ("stdin line", [("stdin.read_line",)])
            rows.append(((inline, file_), got, want))
    return rows




def structural_value_rules(ctx, R4, gav):
    prog = ctx.prog
    ret = origins(gav, {"l": 0, "p": []}, through=True)
    ctx.require(R4, ret.has_leaf("param:2") and ret.has_leaf("param:3") and any(x.is_("tacd::read_line") for x in ret.calls), "%s:%s" % (gav.file, gav.line),
                "get_acme_value = the option's value, else read_line(the file option or stdin)", ["tacd::get_acme_value", "sources"])
    rl = prog.must_body("tacd::read_line")
    sti = rl.calls_to("std::io::stdio::stdin")
    ctx.floor(R4, "stdin() call in read_line", len(sti), 1)
    for c_ in rl.calls + [x for k, b in prog.bodies.items() if b.crate == "tacd" for x in b.calls if b.key != rl.key]:
        if c_.is_("std::io::buffered::bufreader::BufReader::new", "std::io::buffered::bufreader::BufReader::with_capacity", "std::io::Stdin::lock", "std::io::stdio::Stdin::lock") and c_.bb in c_.body.live_blocks():
            sl = arg_origins(c_, len(c_.args) - 1)
            from_stdin = any(x.is_("std::io::stdio::stdin") for x in sl.calls) or sl.via_any("std::io::stdio::stdin") or any("Stdin" in t for t in c_.gargs) or any("dyn std::io::Read" in t or "dyn core::" in t for t in c_.gargs)
            if c_.is_("std::io::Stdin::lock", "std::io::stdio::Stdin::lock"):
                continue
            ctx.require(R4, not from_stdin, c_.where(), "standard input is not wrapped in a function-local BufReader (its read-ahead would swallow the next value given on stdin)", ["tacd::read_line", "local-bufreader"])
    reads = rl.calls_to("std::io::stdio::Stdin::read_line")
    ctx.require(R4, bool(reads), "%s:%s" % (rl.file, rl.line), "a stdin value is one line read with Stdin::read_line (shared, line-buffered handle)", ["tacd::read_line", "stdin-read-line"])
    ret = origins(rl, {"l": 0, "p": []})
    ctx.require(R4, ret.via_any("core::str::<impl str>::trim"), "%s:%s" % (rl.file, rl.line), "the value is trimmed (no trailing newline)", ["tacd::read_line", "trim"])

