"""E2 core: program model over the extracted MIR facts — CFG, dominators, reachability, call sites,
await modelling, value flow (forward) and provenance (backward), constant/promoted resolution.

Everything here is exact graph computation over the facts; there is no path enumeration and no bound.
"""
import re
from collections import defaultdict, deque

def strip_generics(name):
    """`core::option::Option::<T>::is_none` -> `core::option::Option::is_none`: turbofish segments are removed,
    `::<impl Trait for Type>::` segments are kept."""
    if name is None:
        return None
    out = []
    i = 0
    n = len(name)
    while i < n:
        if name.startswith("::<", i) and not name.startswith("::<impl ", i):
            depth = 0
            j = i + 2
            while j < n:
                ch = name[j]
                if ch == "<":
                    depth += 1
                elif ch == ">" and name[j - 1] != "-":
                    depth -= 1
                    if depth == 0:
                        break
                j += 1
            i = j + 1
            continue
        out.append(name[i])
        i += 1
    return "".join(out)


class CallSite:
    __slots__ = ("body", "bb", "term", "fn", "res", "name", "args", "dest", "target", "line", "exp", "gbodies", "gargs")

    def __init__(self, body, bb, term):
        self.body = body
        self.bb = bb
        self.term = term
        self.fn = strip_generics(term.get("fn"))
        self.res = strip_generics(term.get("res"))
        self.name = self.res or self.fn
        self.args = term.get("args", [])
        self.dest = term.get("dest")
        self.target = term.get("target")
        self.line = term.get("line")
        self.exp = term.get("exp")
        self.gbodies = term.get("gbodies", [])
        self.gargs = term.get("gargs", [])

    def is_(self, *names):
        """True when the declared or the resolved callee equals / ends with one of the names."""
        for n in names:
            for c in (self.fn, self.res):
                if c is None:
                    continue
                if c == n or c.endswith("::" + n) or (n.startswith("*") and n[1:] in c):
                    return True
        return False

    def is_or_polls(self, *names):
        """like is_, and also true for the poll site of the coroutine of `async fn name`"""
        return self.is_(*names) or self.is_(*[n + "::{closure#0}" for n in names])

    def where(self):
        return "%s:%s (%s bb%d)" % (self.body.file_of(self.bb), self.line, self.body.key, self.bb)

    def __repr__(self):
        return "<call %s @%s bb%d>" % (self.name, self.body.key, self.bb)


def op_place(op):
    if op is None:
        return None
    return op.get("move") or op.get("copy")


def op_local(op):
    p = op_place(op)
    return None if p is None else p["l"]


def op_const(op):
    return None if op is None else op.get("const")


def place_is_local(p):
    return p is not None and not p["p"]


def place_fields(p):
    """names of the named struct fields along a place's projection"""
    return [e.get("n") for e in p["p"] if isinstance(e, dict) and "n" in e]


class Body:
    def __init__(self, prog, crate, raw):
        self.prog = prog
        self.crate = crate
        self.raw = raw
        self.key = raw["key"]
        self.kind = raw["kind"]
        self.file = raw["file"]
        self.line = raw["line"]
        self.exp = raw["exp"]
        self.parent = raw.get("parent")
        self.root = raw.get("root")
        self.is_coroutine = raw.get("is_coroutine", False)
        b = raw["body"]
        self.arg_count = b["arg_count"]
        self.locals = b["locals"]
        self.blocks = b["blocks"]
        self.promoted = raw.get("promoted", [])
        self.n = len(self.blocks)
        self._succ = None
        self._pred = None
        self._calls = None
        self._defs = None
        self._idom = None
        self._tagl = None
        self._const_switch = None

    # ------------------------------------------------------------------ basic structure
    def file_of(self, bb):
        return self.blocks[bb]["term"].get("file", self.file)

    def term(self, bb):
        return self.blocks[bb]["term"]

    def is_cleanup(self, bb):
        return bool(self.blocks[bb].get("cleanup"))

    def _raw_succ(self, bb):
        t = self.blocks[bb]["term"]
        k = t["t"]
        if k == "goto":
            return [t["target"]]
        if k == "switch":
            cs = self.const_switch_target(bb)
            if cs is not None:
                return [cs]
            out = [a[1] for a in t["arms"]]
            out.append(t["otherwise"])
            return out
        if k in ("call", "drop", "assert", "yield"):
            return [] if t.get("target") is None else [t["target"]]
        return []

    def const_switch_target(self, bb):
        """cfg!(unix) and friends: a switch whose discriminant is a compile-time constant has one live arm."""
        t = self.blocks[bb]["term"]
        c = op_const(t.get("discr"))
        if c is None:
            # `_x = const true; switchInt(move _x)` in the same block
            l = op_local(t.get("discr"))
            if l is None:
                return None
            val = None
            for st in self.blocks[bb]["stmts"]:
                if st["s"] == "assign" and place_is_local(st["lhs"]) and st["lhs"]["l"] == l:
                    rv = st["rv"]
                    val = None
                    if rv["k"] == "use":
                        cc = op_const(rv["op"])
                        if cc is not None and ("bool" in cc or "int" in cc):
                            val = int(cc["bool"]) if "bool" in cc else cc["int"]
            if val is None:
                return None
        else:
            if "bool" in c:
                val = int(c["bool"])
            elif "int" in c:
                val = c["int"]
            else:
                return None
        for v, tgt in t["arms"]:
            if v == val:
                return tgt
        return t["otherwise"]

    @property
    def succ(self):
        """normal-flow successors: no unwind edges, no Yield drop edges, constant switches pruned"""
        if self._succ is None:
            self._succ = [[s for s in dict.fromkeys(self._raw_succ(i))] for i in range(self.n)]
        return self._succ

    @property
    def pred(self):
        if self._pred is None:
            p = [[] for _ in range(self.n)]
            for i, ss in enumerate(self.succ):
                for s in ss:
                    p[s].append(i)
            self._pred = p
        return self._pred

    def reachable(self, start=0, removed_nodes=(), removed_edges=()):
        """set of blocks reachable from `start` (a block or iterable of blocks) avoiding removed nodes/edges. In a helper-inlined
        view the flag/variant-tag sensitive exploration is used: a helper's `return Err(..)` followed by the caller's `?` must not
        be read as a path that goes on with the Ok arm (plain reachability would merge the helper's returns)."""
        if getattr(self, "inlined", 0):
            key = (start if isinstance(start, int) else tuple(sorted(start)), frozenset(removed_nodes), frozenset(map(tuple, removed_edges)))
            memo = self.__dict__.setdefault("_reach_memo", {})
            if key not in memo:
                memo[key] = frozenset(self.reachable_flags(start, removed_nodes, removed_edges))
            return set(memo[key])
        return self._reachable_plain(start, removed_nodes, removed_edges)

    def _reachable_plain(self, start=0, removed_nodes=(), removed_edges=()):
        rn = set(removed_nodes)
        re_ = set(removed_edges)
        starts = [start] if isinstance(start, int) else list(start)
        seen = set()
        dq = deque(s for s in starts if s not in rn)
        seen.update(dq)
        while dq:
            u = dq.popleft()
            for v in self.succ[u]:
                if v in rn or (u, v) in re_ or v in seen:
                    continue
                seen.add(v)
                dq.append(v)
        return seen

    def reachable_flags(self, start=0, removed_nodes=(), removed_edges=(), init=None, max_states=200000):
        """Reachability on the product of the CFG with the known constant values of bool locals and bool tuple
        fields (constant propagation through moves, tuple construction/destructuring and `!`): correlated branches on
        a flag assigned constants on different arms do not create infeasible paths. Sound: unknown values follow all
        arms. Returns the set of reachable blocks."""
        rn = set(removed_nodes)
        re_ = set(removed_edges)
        starts = [start] if isinstance(start, int) else list(start)
        tracked = set()
        for i, l in enumerate(self.locals):
            t = l["ty"]
            if t == "bool" or (t.startswith("(") and "bool" in t):
                tracked.add(i)
        # a flag whose address is taken mutably may change behind our back: do not track it
        for blk in self.blocks:
            for stmt in blk["stmts"]:
                if stmt["s"] == "assign" and stmt["rv"]["k"] in ("ref", "rawptr") and stmt["rv"].get("bk") == "mut":
                    tracked.discard(stmt["rv"]["place"]["l"])
        # variant tags of enum values (Result/Option/Poll/ControlFlow..): a value built as `Err(..)` on one path and tested by
        # `match`/`?` later follows only the Err arm. Tracked for the locals that flow into a discriminant read.
        tagged = self._tag_locals()
        for blk in self.blocks:
            for stmt in blk["stmts"]:
                if stmt["s"] == "assign" and stmt["rv"]["k"] in ("ref", "rawptr") and stmt["rv"].get("bk") == "mut":
                    tagged.discard(stmt["rv"]["place"]["l"])
        seen = set()
        from collections import deque as _dq
        dq = _dq()
        for s0 in starts:
            if s0 in rn:
                continue
            st = (s0, frozenset((init or {}).items()))
            seen.add(st)
            dq.append(st)
        blocks_seen = set()
        while dq:
            bb, fz = dq.popleft()
            blocks_seen.add(bb)
            if len(seen) > max_states:
                # give up precision, stay sound
                return self._reachable_plain(start, removed_nodes, removed_edges)
            facts = dict(fz)
            blk = self.blocks[bb]
            for stmt in blk["stmts"]:
                if stmt["s"] != "assign":
                    continue
                lhs = stmt["lhs"]
                L = lhs["l"]
                rv = stmt["rv"]
                if L in tagged or (rv["k"] == "discr" and rv["place"]["l"] in tagged):
                    self._tag_transfer(facts, lhs, rv, tagged)
                if L not in tracked:
                    continue
                if lhs["p"]:
                    # field write `_t.1 = ..`
                    if len(lhs["p"]) == 1 and isinstance(lhs["p"][0], dict) and "f" in lhs["p"][0]:
                        key = (L, lhs["p"][0]["f"])
                        facts.pop(key, None)
                        if rv["k"] == "use":
                            c = op_const(rv["op"])
                            if c is not None and "bool" in c:
                                facts[key] = c["bool"]
                    else:
                        for k in [k for k in facts if k[0] == L]:
                            facts.pop(k)
                    continue
                for k in [k for k in facts if k[0] == L]:
                    facts.pop(k)
                if rv["k"] == "use":
                    c = op_const(rv["op"])
                    if c is not None:
                        if "bool" in c:
                            facts[(L,)] = c["bool"]
                    else:
                        pl = op_place(rv["op"])
                        if pl is not None:
                            M = pl["l"]
                            if not pl["p"]:
                                for k, v in list(facts.items()):
                                    if k[0] == M:
                                        facts[(L,) + k[1:]] = v
                            elif len(pl["p"]) == 1 and isinstance(pl["p"][0], dict) and "f" in pl["p"][0]:
                                v = facts.get((M, pl["p"][0]["f"]))
                                if v is not None:
                                    facts[(L,)] = v
                elif rv["k"] == "agg" and rv.get("agg") == "tuple":
                    for i, o in enumerate(rv["ops"]):
                        c = op_const(o)
                        if c is not None and "bool" in c:
                            facts[(L, i)] = c["bool"]
                        else:
                            ol = op_local(o)
                            if ol is not None and not op_place(o)["p"] and (ol,) in facts:
                                facts[(L, i)] = facts[(ol,)]
                elif rv["k"] == "unop" and rv["op"] == "Not":
                    ol = op_local(rv["a"])
                    if ol is not None and (ol,) in facts:
                        facts[(L,)] = not facts[(ol,)]
            t = blk["term"]
            succs = self.succ[bb]
            if t["t"] == "switch":
                dl = op_local(t["discr"])
                if dl is not None and (dl, "disc") in facts:
                    val = facts[(dl, "disc")]
                    nxt = t["otherwise"]
                    for v, tg in t["arms"]:
                        if v == val:
                            nxt = tg
                    succs = [nxt] if nxt in self.succ[bb] else succs
                elif dl is not None and (dl,) in facts and self.locals[dl]["ty"] == "bool":
                    val = 1 if facts[(dl,)] else 0
                    nxt = t["otherwise"]
                    for v, tg in t["arms"]:
                        if v == val:
                            nxt = tg
                    succs = [nxt] if nxt in self.succ[bb] else succs
            elif t["t"] == "call":
                d = t.get("dest")
                if d is not None and (d["l"] in tracked or d["l"] in tagged):
                    for k in [k for k in facts if k[0] == d["l"]]:
                        facts.pop(k)
                if d is not None and not d["p"] and d["l"] in tagged and strip_generics(t.get("fn") or "") == "core::ops::try_trait::FromResidual::from_residual":
                    dty = self.locals[d["l"]]["ty"]
                    if dty.startswith("core::result::Result<"):
                        facts[(d["l"], "t", 0)] = "Err"
                    elif dty.startswith("core::option::Option<"):
                        facts[(d["l"], "t", 0)] = "None"
                elif d is not None and not d["p"] and d["l"] in tagged and t.get("args"):
                    fn = strip_generics(t.get("fn") or "")
                    a0 = op_place(t["args"][0])
                    if a0 is not None and not a0["p"]:
                        tg0 = facts.get((a0["l"], "t", 0))
                        if fn == "core::ops::try_trait::Try::branch" and tg0 is not None:
                            if tg0 in ("Ok", "Some"):
                                facts[(d["l"], "t", 0)] = "Continue"
                                for n in (1, 2):
                                    if (a0["l"], "t", n) in facts:
                                        facts[(d["l"], "t", n)] = facts[(a0["l"], "t", n)]
                            elif tg0 in ("Err", "None"):
                                facts[(d["l"], "t", 0)] = "Break"
                        elif fn in ("core::result::Result::map_err", "core::result::Result::map", "core::option::Option::map", "core::future::into_future::IntoFuture::into_future") and tg0 is not None:
                            facts[(d["l"], "t", 0)] = tg0
                            if fn.endswith("map_err") and tg0 == "Ok" or fn.endswith("into_future"):
                                for n in (1, 2):
                                    if (a0["l"], "t", n) in facts:
                                        facts[(d["l"], "t", n)] = facts[(a0["l"], "t", n)]
            nf = frozenset(facts.items())
            for v in succs:
                if v in rn or (bb, v) in re_:
                    continue
                st = (v, nf)
                if st not in seen:
                    seen.add(st)
                    dq.append(st)
        return blocks_seen

    def _tag_locals(self):
        """locals whose enum variant is worth tracking: those read by a `discriminant(..)` and whatever flows into them through
        whole moves, payload extraction `(x as V).0`, wrapping aggregates and Try::branch / map / map_err"""
        if getattr(self, "_tagl", None) is not None:
            return set(self._tagl)
        want = set()
        for blk in self.blocks:
            for st in blk["stmts"]:
                if st["s"] == "assign" and st["rv"]["k"] == "discr":
                    want.add(st["rv"]["place"]["l"])
        changed = True
        while changed:
            changed = False
            for blk in self.blocks:
                for st in blk["stmts"]:
                    if st["s"] != "assign" or st["lhs"]["l"] not in want:
                        continue
                    rv = st["rv"]
                    srcs = []
                    if rv["k"] == "use":
                        srcs.append(op_local(rv["op"]))
                    elif rv["k"] == "agg":
                        srcs += [op_local(o) for o in rv["ops"]]
                    for x in srcs:
                        if x is not None and x not in want:
                            want.add(x)
                            changed = True
                t = blk["term"]
                if t["t"] == "call" and t.get("dest") and t["dest"]["l"] in want and t.get("args"):
                    fn = strip_generics(t.get("fn") or "")
                    if fn in ("core::ops::try_trait::Try::branch", "core::result::Result::map_err", "core::result::Result::map", "core::option::Option::map",
                              "core::future::into_future::IntoFuture::into_future"):
                        x = op_local(t["args"][0])
                        if x is not None and x not in want:
                            want.add(x)
                            changed = True
        self._tagl = set(want)
        return set(want)

    def _tag_transfer(self, facts, lhs, rv, tagged):
        """variant tags, three levels deep: ("t",0) the value's own variant, ("t",1) its single payload's, ("t",2) that one's"""
        L = lhs["l"]
        LV = (0, 1, 2)
        if rv["k"] == "discr":
            pl = rv["place"]
            tg = facts.get((pl["l"], "t", 0)) if not [e for e in pl["p"] if e != "*"] else None
            for k in [k for k in facts if k[0] == L]:
                facts.pop(k)
            if tg is not None:
                for val, nm in rv.get("variants", []):
                    if nm == tg:
                        facts[(L, "disc")] = int(val)
            return
        for k in [k for k in facts if k[0] == L and len(k) > 1 and k[1] in ("t", "disc")]:
            facts.pop(k)
        if lhs["p"]:
            return
        if rv["k"] == "agg" and rv.get("agg") == "adt":
            facts[(L, "t", 0)] = rv.get("variant")
            if len(rv["ops"]) == 1:
                pl = op_place(rv["ops"][0])
                c = op_const(rv["ops"][0])
                if pl is not None and not pl["p"]:
                    for n in (0, 1):
                        if (pl["l"], "t", n) in facts:
                            facts[(L, "t", n + 1)] = facts[(pl["l"], "t", n)]
                elif c is not None and c.get("variant"):
                    facts[(L, "t", 1)] = c["variant"]
        elif rv["k"] == "use":
            c = op_const(rv["op"])
            pl = op_place(rv["op"])
            if c is not None and c.get("variant"):
                facts[(L, "t", 0)] = c["variant"]
            elif pl is not None:
                if not pl["p"]:
                    for n in LV:
                        if (pl["l"], "t", n) in facts:
                            facts[(L, "t", n)] = facts[(pl["l"], "t", n)]
                else:
                    pp = [e for e in pl["p"] if not (isinstance(e, dict) and "downcast" in e)]
                    if len(pp) == 1 and isinstance(pp[0], dict) and pp[0].get("f") == 0:
                        for n in (1, 2):
                            if (pl["l"], "t", n) in facts:
                                facts[(L, "t", n - 1)] = facts[(pl["l"], "t", n)]

    def reachable_after(self, bb, removed_nodes=(), removed_edges=(), flags=False):
        """blocks reachable strictly after executing block `bb` (bb itself only if on a cycle); flags=True: on the product with
        constant bool flags and enum variant tags (reachable_flags), which removes paths that contradict a value built earlier"""
        rn = set(removed_nodes)
        starts = [s for s in self.succ[bb] if (bb, s) not in set(removed_edges) and s not in rn]
        if not starts:
            return set()
        if flags:
            return self.reachable_flags(starts, removed_nodes, removed_edges)
        return self.reachable(starts, removed_nodes, removed_edges)

    def live_blocks(self):
        lv = self.__dict__.get("_live")
        if lv is None:
            lv = frozenset(self.reachable(0))
            self.__dict__["_live"] = lv
        return set(lv)

    @property
    def idom(self):
        if self._idom is None:
            self._idom = _dominators(self.n, self.succ, 0)
        return self._idom

    def dominates(self, a, b):
        """block a dominates block b (reflexive) in the normal-flow CFG"""
        idom = self.idom
        if b not in idom:
            return False
        x = b
        while True:
            if x == a:
                return True
            if x == 0 or idom.get(x) is None or idom[x] == x:
                return x == a
            x = idom[x]

    def sccs(self):
        """strongly connected components (lists of blocks) of the live normal-flow CFG; only non-trivial ones (loops)"""
        if getattr(self, "_sccs", None) is not None:
            return self._sccs
        live = self.live_blocks()
        index = {}
        low = {}
        onstack = set()
        stack = []
        out = []
        counter = [0]
        for root in sorted(live):
            if root in index:
                continue
            work = [(root, iter(self.succ[root]))]
            index[root] = low[root] = counter[0]
            counter[0] += 1
            stack.append(root)
            onstack.add(root)
            while work:
                u, it = work[-1]
                adv = False
                for v in it:
                    if v not in index:
                        index[v] = low[v] = counter[0]
                        counter[0] += 1
                        stack.append(v)
                        onstack.add(v)
                        work.append((v, iter(self.succ[v])))
                        adv = True
                        break
                    elif v in onstack:
                        low[u] = min(low[u], index[v])
                if adv:
                    continue
                work.pop()
                if work:
                    p = work[-1][0]
                    low[p] = min(low[p], low[u])
                if low[u] == index[u]:
                    comp = []
                    while True:
                        w = stack.pop()
                        onstack.discard(w)
                        comp.append(w)
                        if w == u:
                            break
                    if len(comp) > 1 or u in self.succ[u]:
                        out.append(sorted(comp))
        self._sccs = out
        return out

    def scc_of(self, bb):
        for c in self.sccs():
            if bb in c:
                return c
        return None

    def return_blocks(self):
        live = self.live_blocks()
        return [i for i in live if self.blocks[i]["term"]["t"] == "return"]

    # ------------------------------------------------------------------ calls
    @property
    def calls(self):
        if self._calls is None:
            self._calls = [CallSite(self, i, b["term"]) for i, b in enumerate(self.blocks)
                           if b["term"]["t"] == "call" and not b.get("cleanup")]
        return self._calls

    def calls_to(self, *names, live_only=True):
        live = self.live_blocks() if live_only else None
        return [c for c in self.calls if c.is_(*names) and (live is None or c.bb in live)]

    # ------------------------------------------------------------------ defs / uses
    @property
    def defs(self):
        """local -> list of ('stmt', bb, idx, stmt) | ('call', bb, callsite) | ('yield', bb) writing the local (any projection)"""
        if self._defs is None:
            d = defaultdict(list)
            for i, b in enumerate(self.blocks):
                if b.get("cleanup"):
                    continue
                for j, st in enumerate(b["stmts"]):
                    if st["s"] in ("assign", "setdiscr"):
                        d[st["lhs"]["l"]].append(("stmt", i, j, st))
                t = b["term"]
                if t["t"] == "call" and t.get("dest") is not None:
                    d[t["dest"]["l"]].append(("call", i, None, t))
            self._defs = d
        return self._defs

    def local_ty(self, l):
        return self.locals[l]["ty"]

    def local_name(self, l):
        return self.locals[l].get("name")

    def locals_named(self, name):
        return [i for i, l in enumerate(self.locals) if l.get("name") == name]

    # ------------------------------------------------------------------ promoted constants
    def promoted_value(self, idx):
        """Summarise promoted body idx: returns dict {variant:..., adt:...} / {str:...} / {int:...} / None"""
        if idx >= len(self.promoted):
            return None
        pb = self.promoted[idx]
        # find what _0 is assigned from, following refs/moves inside the tiny body
        assigns = {}
        for b in pb["blocks"]:
            for st in b["stmts"]:
                if st["s"] == "assign" and place_is_local(st["lhs"]):
                    assigns[st["lhs"]["l"]] = st["rv"]

        def ev(l, depth=0):
            rv = assigns.get(l)
            if rv is None or depth > 8:
                return None
            k = rv["k"]
            if k == "ref":
                return ev(rv["place"]["l"], depth + 1)
            if k == "use":
                c = op_const(rv["op"])
                if c is not None:
                    return dict(c)
                ll = op_local(rv["op"])
                return None if ll is None else ev(ll, depth + 1)
            if k == "agg":
                if rv.get("agg") == "adt":
                    return {"adt": rv["adt"], "variant": rv["variant"], "ops": rv["ops"]}
                if rv.get("agg") in ("array", "tuple"):
                    vals = []
                    for o in rv["ops"]:
                        c = op_const(o)
                        if c is not None:
                            vals.append(dict(c))
                        else:
                            ll = op_local(o)
                            vals.append(ev(ll, depth + 1) if ll is not None else None)
                    return {"array": vals}
            if k == "cast":
                ll = op_local(rv["op"])
                if ll is not None:
                    return ev(ll, depth + 1)
                c = op_const(rv["op"])
                return dict(c) if c else None
            return None

        return ev(0)

    def const_of(self, op):
        """decode a constant operand (resolving promoteds of this body)"""
        c = op_const(op)
        if c is None:
            return None
        if "promoted" in c:
            return self.promoted_value(c["promoted"])
        return c

    # ------------------------------------------------------------------ value flow (flow-insensitive over SSA-like temps)
    def assigned_from(self, l):
        """operands/places whose value flows into local l by plain data movement:
        yields list of ('local', l2) / ('const', c) / ('call', CallSite) / ('place', place) / ('agg', rv) / ('other', rv)"""
        out = []
        for kind, bb, j, x in self.defs.get(l, []):
            if kind == "call":
                out.append(("call", CallSite(self, bb, x)))
                continue
            st = x
            if st["s"] != "assign":
                continue
            rv = st["rv"]
            k = rv["k"]
            proj = st["lhs"]["p"]
            if k == "use":
                o = rv["op"]
                c = op_const(o)
                if c is not None:
                    out.append(("const", self.const_of(o) or c, proj))
                else:
                    out.append(("place", op_place(o), proj))
            elif k in ("ref", "rawptr"):
                out.append(("place", rv["place"], proj))
            elif k == "cast":
                o = rv["op"]
                c = op_const(o)
                if c is not None:
                    out.append(("const", self.const_of(o) or c, proj))
                else:
                    out.append(("place", op_place(o), proj))
            elif k == "agg":
                out.append(("agg", rv, proj))
            else:
                out.append(("other", rv, proj))
        return out


def _dominators(n, succ, entry):
    """Cooper–Harvey–Kennedy iterative dominators; returns idom dict for reachable nodes."""
    order = []
    seen = set([entry])
    stack = [(entry, iter(succ[entry]))]
    while stack:
        u, it = stack[-1]
        adv = False
        for v in it:
            if v not in seen:
                seen.add(v)
                stack.append((v, iter(succ[v])))
                adv = True
                break
        if not adv:
            order.append(u)
            stack.pop()
    rpo = list(reversed(order))
    num = {b: i for i, b in enumerate(rpo)}
    pred = defaultdict(list)
    for u in rpo:
        for v in succ[u]:
            if v in num:
                pred[v].append(u)
    idom = {entry: entry}
    changed = True
    while changed:
        changed = False
        for b in rpo[1:]:
            new = None
            for p in pred[b]:
                if p in idom:
                    if new is None:
                        new = p
                    else:
                        f1, f2 = p, new
                        while f1 != f2:
                            while num[f1] > num[f2]:
                                f1 = idom[f1]
                            while num[f2] > num[f1]:
                                f2 = idom[f2]
                        new = f1
            if new is not None and idom.get(b) != new:
                idom[b] = new
                changed = True
    return idom


class Program:
    def __init__(self, crates):
        self.crates = crates
        self.bodies = {}
        self.adts = {}
        self.consts = {}
        self.dups = []
        for cname, c in crates.items():
            for raw in c["bodies"]:
                b = Body(self, cname, raw)
                if b.key in self.bodies:
                    # serde derive emits several `_` consts; keys can repeat for anonymous items: keep all under a suffix
                    k = b.key
                    i = 2
                    while "%s#%d" % (k, i) in self.bodies:
                        i += 1
                    b.key = "%s#%d" % (k, i)
                    self.dups.append(b.key)
                self.bodies[b.key] = b
            for a in c["adts"]:
                self.adts[a["key"]] = a
            for k in c["consts"]:
                self.consts.setdefault(k["key"], k)
        self._callers = None

    def body(self, key, raw=False):
        if raw or key not in self.bodies:
            return self.bodies.get(key)
        from .inline import inlined_body
        return inlined_body(self, key)

    def absorbed(self, key):
        """True when body `key` is the body (or the coroutine body) of a NEW helper function — one that is absent from
        oracles/known_functions.json — every use of which was inlined into its callers' helper-transparent views. Rules
        that enumerate bodies skip such a body: its code is examined inside the callers, under their names. A helper with
        any use the inliner left alone (recursion, size/depth bound, a future awaited elsewhere, a fn item passed as a
        value) is NOT absorbed and is examined as a body of its own."""
        ab = self.__dict__.get("_absorbed")
        if ab is None:
            from .inline import original_function
            cand = set()
            for k, b in self.bodies.items():
                if b.kind in ("Fn", "AssocFn") and b.crate in ("acmed", "tacd", "acme_common") and not b.exp and not original_function(strip_generics(k)):
                    cand.add(k)
            while True:
                owned = set()
                for h in cand:
                    owned.add(h)
                    if self.bodies[h].raw.get("is_async"):
                        owned.add(h + "::{closure#0}")
                residual = set()
                for k in self.bodies:
                    if k in owned:
                        continue
                    residual |= self.callees_of(self.body(k))
                drop = {h for h in cand if h in residual or (h + "::{closure#0}") in residual and self.bodies[h].raw.get("is_async")}
                if not drop:
                    break
                cand -= drop
            ab = set()
            for h in cand:
                ab.add(h)
                if self.bodies[h].raw.get("is_async"):
                    ab.add(h + "::{closure#0}")
            self.__dict__["_absorbed"] = ab
        return key in ab

    def must_body(self, key, raw=False):
        b = self.body(key, raw)
        if b is None:
            raise AnchorMissing("body `%s` not found in the analysed program" % key)
        return b

    def async_body(self, key):
        """the coroutine body of `async fn key`"""
        return self.must_body(key + "::{closure#0}")

    def children(self, key):
        return [b for b in self.bodies.values() if b.parent == key]

    def user_bodies(self, crates=("acmed", "tacd", "acme_common"), include_derive=False):
        for b in self.bodies.values():
            if b.crate not in crates:
                continue
            if not include_derive and b.exp and b.kind != "Closure":
                # bodies whose definition comes from a macro expansion: derive output (Clone, Deserialize, …).
                # macro_rules-generated closures of the repository keep kind Closure and are included.
                continue
            yield b

    def adt(self, key):
        a = self.adts.get(key)
        if a is None:
            raise AnchorMissing("ADT `%s` not found" % key)
        return a

    def adt_fields(self, key, variant=None):
        a = self.adt(key)
        v = a["variants"][0] if variant is None else [x for x in a["variants"] if x["name"] == variant][0]
        return [f["name"] for f in v["fields"]]

    def adt_variants(self, key):
        return [v["name"] for v in self.adt(key)["variants"]]

    def const(self, key):
        c = self.consts.get(key)
        if c is None:
            raise AnchorMissing("const `%s` not found" % key)
        return c

    # ------------------------------------------------------------------ call graph
    def callees_of(self, body):
        """keys of workspace bodies that `body` may execute: direct calls (declared or resolved), polled coroutines,
        closures/coroutines it creates, closures passed in generic arguments"""
        out = set()
        for c in body.calls:
            for nm in (c.term.get("res"), c.term.get("fn")):
                if nm and nm in self.bodies:
                    out.add(nm)
                sn = strip_generics(nm) if nm else None
                if sn and sn in self.bodies:
                    out.add(sn)
            for g in c.gbodies:
                if g in self.bodies:
                    out.add(g)
            # formatting: `format!("{x}")` / `x.to_string()` run <T as Display>::fmt (resp. Debug, LowerHex..) of a workspace type
            # behind core::fmt's type-erased argument — an edge the resolved callee does not show
            fn_ = c.fn or ""
            fm = None
            if fn_.startswith("core::fmt::rt::Argument") and "::new_" in fn_ and c.gargs:
                tr = {"display": "Display", "debug": "Debug", "lower_hex": "LowerHex", "upper_hex": "UpperHex", "lower_exp": "LowerExp", "upper_exp": "UpperExp",
                      "octal": "Octal", "binary": "Binary", "pointer": "Pointer"}.get(fn_.rsplit("::new_", 1)[1])
                if tr:
                    fm = (c.gargs[0], tr)
            elif fn_ == "alloc::string::ToString::to_string" and c.term.get("arg_tys"):
                fm = (c.term["arg_tys"][0], "Display")
            if fm:
                ty = fm[0].replace("mut ", "").lstrip("&").strip()
                k_ = "<%s as core::fmt::%s>::fmt" % (strip_generics(ty) if "<" in ty else ty, fm[1])
                if k_ in self.bodies:
                    out.add(k_)
            # function items passed as values (`fold_many1(get_duration_part, ..)`, `.map(AccountKeyStorage::new)`)
            for a in c.args:
                self._fn_const(a, out)
        for b in body.blocks:
            if b.get("cleanup"):
                continue
            for st in b["stmts"]:
                if st["s"] != "assign":
                    continue
                rv = st["rv"]
                if rv["k"] == "agg" and rv.get("def") in self.bodies:
                    out.add(rv["def"])
                for key in ("op", "a", "b"):
                    if isinstance(rv.get(key), dict):
                        self._fn_const(rv[key], out)
                for o in rv.get("ops", []) if rv["k"] == "agg" else []:
                    self._fn_const(o, out)
        # an async fn returns its coroutine
        return out

    def _fn_const(self, op, out):
        c = op.get("const") if isinstance(op, dict) else None
        if c and "fn" in c:
            for nm in (c.get("res"), c.get("fn")):
                for cand in (nm, strip_generics(nm) if nm else None):
                    if cand and cand in self.bodies:
                        out.add(cand)

    def call_graph(self):
        if self._callers is None:
            cg = {k: self.callees_of(b) for k, b in self.bodies.items()}
            self._cg = cg
            callers = defaultdict(set)
            for k, cs in cg.items():
                for c in cs:
                    callers[c].add(k)
            self._callers = callers
        return self._cg

    def callers_of(self, key):
        self.call_graph()
        return self._callers.get(key, set())

    def reach(self, entries):
        cg = self.call_graph()
        seen = set()
        dq = deque(e for e in entries if e in self.bodies)
        seen.update(dq)
        while dq:
            u = dq.popleft()
            for v in cg.get(u, ()):
                if v not in seen:
                    seen.add(v)
                    dq.append(v)
        return seen

    def all_calls_to(self, *names, crates=("acmed", "tacd", "acme_common"), include_derive=False):
        out = []
        for b in self.user_bodies(crates, include_derive):
            if self.absorbed(b.key):
                continue        # a new helper inlined everywhere: its call sites are seen inside its callers' views, under their names
            out.extend(self.body(b.key).calls_to(*names))
        return out


class AnchorMissing(Exception):
    pass


# ---------------------------------------------------------------------- await / try modelling
def await_sites(body):
    """poll calls of this coroutine body: list of CallSite whose declared fn is Future::poll"""
    return [c for c in body.calls if c.fn == "core::future::future::Future::poll"]


def polls_of(body, coroutine_key):
    """blocks where the awaited coroutine `coroutine_key` (an async fn's `{closure#0}` or an async block) runs"""
    live = body.live_blocks()
    return [c for c in await_sites(body) if c.res == coroutine_key and c.bb in live]


def forward_locals(body, start_locals, through=None, stop_at=None):
    """Forward closure of locals that carry (a move/copy/ref/wrapper of) the value in start_locals.
    `through`: predicate(CallSite) -> True when the callee passes its argument's value to its result.
    Returns set of locals."""
    seen = set(start_locals)
    dq = deque(start_locals)
    uses = _uses_index(body)
    while dq:
        l = dq.popleft()
        for kind, bb, x in uses.get(l, []):
            if kind == "stmt":
                st = x
                tgt = st["lhs"]["l"]
                if st["rv"]["k"] in ("use", "ref", "cast", "agg", "rawptr", "discr"):
                    if st["rv"]["k"] == "discr":
                        continue
                    if tgt not in seen:
                        seen.add(tgt)
                        dq.append(tgt)
            elif kind == "call":
                cs = x
                if through is not None and through(cs) and cs.dest is not None:
                    tgt = cs.dest["l"]
                    if tgt not in seen:
                        seen.add(tgt)
                        dq.append(tgt)
    return seen


def _uses_index(body):
    if getattr(body, "_uses", None) is not None:
        return body._uses
    uses = defaultdict(list)

    def ops_of_rv(rv):
        k = rv["k"]
        if k in ("use", "cast", "repeat"):
            return [rv["op"]]
        if k in ("ref", "rawptr", "discr"):
            return [{"copy": rv["place"]}]
        if k == "binop":
            return [rv["a"], rv["b"]]
        if k == "unop":
            return [rv["a"]]
        if k == "agg":
            return rv["ops"]
        return []

    for i, b in enumerate(body.blocks):
        if b.get("cleanup"):
            continue
        for st in b["stmts"]:
            if st["s"] != "assign":
                continue
            for o in ops_of_rv(st["rv"]):
                l = op_local(o)
                if l is not None:
                    uses[l].append(("stmt", i, st))
        t = b["term"]
        if t["t"] == "call":
            cs = CallSite(body, i, t)
            for o in cs.args:
                l = op_local(o)
                if l is not None:
                    uses[l].append(("call", i, cs))
        elif t["t"] == "switch":
            l = op_local(t["discr"])
            if l is not None:
                uses[l].append(("switch", i, t))
    body._uses = uses
    return uses


AWAIT_PLUMBING = ("core::future::into_future::IntoFuture::into_future", "core::pin::Pin::new_unchecked",
                  "core::future::future::Future::poll")
RESULT_ADAPTERS = ("core::result::Result::map_err", "core::result::Result::map", "core::option::Option::ok_or_else",
                   "core::option::Option::ok_or", "core::result::Result::and_then")


def try_edges(body, value_locals):
    """Given locals holding a Result/Option (possibly after await plumbing), find the `?` / match that tests it.
    Returns list of dicts {bb, ok: [targets], err: [targets]} for each switch on its discriminant / Try::branch."""
    def through(cs):
        return cs.fn in AWAIT_PLUMBING or cs.fn in RESULT_ADAPTERS or cs.fn == "core::ops::try_trait::Try::branch"
    carried = forward_locals(body, value_locals, through)
    # references to the carried value (`&res`) are carried too (forward_locals follows `ref`)
    out = []
    for i, b in enumerate(body.blocks):
        if b.get("cleanup"):
            continue
        t = b["term"]
        if t["t"] != "switch":
            continue
        dl = op_local(t["discr"])
        if dl is None:
            continue
        # the discriminant local is assigned `discriminant(place)` with place.l in carried
        src = None
        for kind, bb, j, st in body.defs.get(dl, []):
            if kind == "stmt" and st["s"] == "assign" and st["rv"]["k"] == "discr":
                src = st["rv"]
        if src is None or src["place"]["l"] not in carried:
            continue
        adt = strip_generics(src.get("adt", ""))
        names = {int(v[0]): v[1] for v in src.get("variants", [])}
        ok, err = [], []
        listed = set()
        for v, tgt in t["arms"]:
            nm = names.get(v, str(v))
            listed.add(nm)
            if nm in ("Ok", "Continue", "Some", "Ready"):
                ok.append(tgt)
            elif nm in ("Err", "Break", "None", "Pending"):
                err.append(tgt)
        rest = [n for n in names.values() if n not in listed]
        if len(rest) == 1 and t["otherwise"] in body.succ[i]:
            # `if let Err(e) = x { .. } else { .. }`: the otherwise edge is the one remaining variant
            if rest[0] in ("Ok", "Continue", "Some", "Ready"):
                ok.append(t["otherwise"])
            elif rest[0] in ("Err", "Break", "None", "Pending"):
                err.append(t["otherwise"])
        out.append({"bb": i, "adt": adt, "ok": ok, "err": err, "otherwise": t["otherwise"], "names": names})
    # `if res.is_ok() { .. }` / `is_err` / `is_some` / `is_none`: a bool test of the same value
    for cs in body.calls:
        if cs.fn in ("core::result::Result::is_ok", "core::result::Result::is_err", "core::option::Option::is_some", "core::option::Option::is_none") \
                and cs.args and op_local(cs.args[0]) in carried and cs.dest is not None:
            positive = cs.fn.endswith(("is_ok", "is_some"))
            # switches on the returned bool (through moves and `!`)
            cur = {cs.dest["l"]: False}
            changed = True
            while changed:
                changed = False
                for b2 in body.blocks:
                    if b2.get("cleanup"):
                        continue
                    for st in b2["stmts"]:
                        if st["s"] != "assign" or st["lhs"]["p"] or st["lhs"]["l"] in cur:
                            continue
                        rv = st["rv"]
                        if rv["k"] == "use" and op_local(rv["op"]) in cur and not op_place(rv["op"])["p"]:
                            cur[st["lhs"]["l"]] = cur[op_local(rv["op"])]
                            changed = True
                        elif rv["k"] == "unop" and rv["op"] == "Not" and op_local(rv["a"]) in cur:
                            cur[st["lhs"]["l"]] = not cur[op_local(rv["a"])]
                            changed = True
            for i, b2 in enumerate(body.blocks):
                t = b2["term"]
                if b2.get("cleanup") or t["t"] != "switch" or op_local(t["discr"]) not in cur:
                    continue
                neg = cur[op_local(t["discr"])]
                f_t = None
                t_t = t["otherwise"]
                for v, tg in t["arms"]:
                    if v == 0:
                        f_t = tg
                    elif v == 1:
                        t_t = tg
                if f_t is None:
                    f_t = t["otherwise"]
                if neg:
                    t_t, f_t = f_t, t_t
                ok_t, err_t = (t_t, f_t) if positive else (f_t, t_t)
                out.append({"bb": i, "adt": "core::result::Result" if "result" in cs.fn else "core::option::Option", "ok": [ok_t], "err": [err_t],
                            "otherwise": t["otherwise"], "names": {}})
    return out


def success_edge_blocks(body, call_bb):
    """Blocks reached only when the call at call_bb (a plain call, or the creation call of an awaited future)
    produced Ok/Some: the Continue/Ok targets of every Try::branch / match testing the value.
    Returns (ok_targets, err_targets, tests) — empty lists when the result is never tested."""
    t = body.term(call_bb)
    dest = t.get("dest")
    if dest is None:
        return [], [], []
    start = [dest["l"]]
    # awaited: the future's output appears as the Ready payload of the poll result
    tests = try_edges(body, start)
    ok, err = [], []
    for x in tests:
        if x["adt"].endswith("Poll"):
            continue
        ok.extend(x["ok"])
        err.extend(x["err"])
    return ok, err, tests
