"""Loop classification (termination side of T8): which cycles of a body's CFG are driven by a finite iterator or are
await poll loops, and which are genuine `loop`/`while` constructs that need a bound argument."""
from .mir import CallSite

FINITE_ITER_MARKERS = (
    "core::slice::iter::Iter", "core::slice::iter::IterMut", "alloc::vec::into_iter::IntoIter", "core::ops::range::Range",
    "std::collections::hash::map::Iter", "std::collections::hash::map::IterMut", "std::collections::hash::map::IntoIter",
    "std::collections::hash::set::Iter", "std::collections::hash::map::Keys", "std::collections::hash::map::Values",
    "std::collections::hash::set::Difference", "alloc::collections::btree", "core::str::iter::", "std::io::Lines", "core::iter::adapters::", "core::option::Iter",
    "std::env::Vars", "glob::Paths", "alloc::vec::drain::Drain", "core::array::iter::IntoIter", "core::iter::sources",
    "core::slice::iter::Chunks", "core::slice::iter::Windows",
)
NEXT = "core::iter::traits::iterator::Iterator::next"


def finite_next_blocks(body):
    out = []
    for c in body.calls:
        if c.fn == NEXT and c.res:
            recv = c.res.split(" as ")[0].lstrip("<")
            if "Incoming" in recv or "RangeFrom" in recv or "Repeat" in recv or "Cycle" in recv:
                continue
            if any(m in recv for m in FINITE_ITER_MARKERS):
                out.append(c.bb)
    return out


def unexplained_loops(body):
    """SCCs that remain after removing finite-iterator `next` blocks and Yield blocks (await points):
    each is a `loop`/`while` needing a bound. Returns list of sorted block lists."""
    live = body.live_blocks()
    removed = set(finite_next_blocks(body))
    for i in live:
        if body.term(i)["t"] == "yield":
            removed.add(i)
    # Tarjan on the reduced graph
    nodes = [n for n in sorted(live) if n not in removed]
    succ = {n: [s for s in body.succ[n] if s in live and s not in removed] for n in nodes}
    index, low, on, st, out = {}, {}, set(), [], []
    cnt = [0]
    for root in nodes:
        if root in index:
            continue
        work = [(root, iter(succ[root]))]
        index[root] = low[root] = cnt[0]
        cnt[0] += 1
        st.append(root)
        on.add(root)
        while work:
            u, it = work[-1]
            adv = False
            for v in it:
                if v not in index:
                    index[v] = low[v] = cnt[0]
                    cnt[0] += 1
                    st.append(v)
                    on.add(v)
                    work.append((v, iter(succ[v])))
                    adv = True
                    break
                elif v in on:
                    low[u] = min(low[u], index[v])
            if adv:
                continue
            work.pop()
            if work:
                low[work[-1][0]] = min(low[work[-1][0]], low[u])
            if low[u] == index[u]:
                comp = []
                while True:
                    w = st.pop()
                    on.discard(w)
                    comp.append(w)
                    if w == u:
                        break
                if len(comp) > 1 or u in succ[u]:
                    out.append(sorted(comp))
    return out


def recursive_sccs(prog, keys):
    """call-graph SCCs (recursion) among the given body keys"""
    cg = prog.call_graph()
    keys = set(keys)
    succ = {k: [c for c in cg.get(k, ()) if c in keys] for k in keys}
    index, low, on, st, out = {}, {}, set(), [], []
    cnt = [0]
    for root in sorted(keys):
        if root in index:
            continue
        work = [(root, iter(succ[root]))]
        index[root] = low[root] = cnt[0]
        cnt[0] += 1
        st.append(root)
        on.add(root)
        while work:
            u, it = work[-1]
            adv = False
            for v in it:
                if v not in index:
                    index[v] = low[v] = cnt[0]
                    cnt[0] += 1
                    st.append(v)
                    on.add(v)
                    work.append((v, iter(succ[v])))
                    adv = True
                    break
                elif v in on:
                    low[u] = min(low[u], index[v])
            if adv:
                continue
            work.pop()
            if work:
                low[work[-1][0]] = min(low[work[-1][0]], low[u])
            if low[u] == index[u]:
                comp = []
                while True:
                    w = st.pop()
                    on.discard(w)
                    comp.append(w)
                    if w == u:
                        break
                if len(comp) > 1 or u in succ[u]:
                    out.append(sorted(comp))
    return out
