"""Loop classification (termination side of T8): which cycles of a body's CFG are driven by a finite iterator or are
await poll loops, and which are genuine `loop`/`while` constructs that need a bound argument."""
from .mir import CallSite, op_const, op_local, op_place

FINITE_ITER_MARKERS = (
    "core::slice::iter::Iter", "core::slice::iter::IterMut", "alloc::vec::into_iter::IntoIter", "core::ops::range::Range",
    "std::collections::hash::map::Iter", "std::collections::hash::map::IterMut", "std::collections::hash::map::IntoIter",
    "std::collections::hash::set::Iter", "std::collections::hash::map::Keys", "std::collections::hash::map::Values",
    "std::collections::hash::set::Difference", "alloc::collections::btree", "core::str::iter::", "std::io::Lines", "core::iter::adapters::", "core::option::Iter",
    "std::env::Vars", "glob::Paths", "alloc::vec::drain::Drain", "core::array::iter::IntoIter", "core::iter::sources",
    "core::slice::iter::Chunks", "core::slice::iter::Windows",
)
NEXT = "core::iter::traits::iterator::Iterator::next"


def finite_next_blocks(body):
    out = []
    for c in body.calls:
        if c.fn == NEXT and c.res:
            recv = c.res.split(" as ")[0].lstrip("<")
            if "Incoming" in recv or "RangeFrom" in recv or "Repeat" in recv or "Cycle" in recv:
                continue
            if any(m in recv for m in FINITE_ITER_MARKERS):
                out.append(c.bb)
        elif c.fn == NEXT and not c.res and body.blocks[c.bb].get("inl"):
            # `for x in names` inside an inlined generic helper (`names: impl Iterator`): the receiver type is a type parameter; the
            # iterator VALUE is what the caller built — finite when its provenance is made of collection iterators and adaptors only
            try:
                from .flow import arg_origins
                sl = arg_origins(c, 0)
                made = [x.name or "" for x in sl.calls]
                finite_src = any(n.rsplit("::", 1)[-1] in ("iter", "iter_mut", "into_iter", "keys", "values", "drain", "chars", "bytes", "lines", "split") for n in made)
                endless = any(k in n for n in made for k in ("repeat", "cycle", "RangeFrom", "incoming", "successors", "from_fn", "repeat_with"))
                if finite_src and not endless:
                    out.append(c.bb)
            except Exception:
                pass
    return out


def unexplained_loops(body):
    """SCCs that remain after removing finite-iterator `next` blocks and Yield blocks (await points):
    each is a `loop`/`while` needing a bound. Returns list of sorted block lists."""
    live = body.live_blocks()
    removed = set(finite_next_blocks(body))
    for i in live:
        if body.term(i)["t"] == "yield":
            removed.add(i)
    # Tarjan on the reduced graph
    nodes = [n for n in sorted(live) if n not in removed]
    succ = {n: [s for s in body.succ[n] if s in live and s not in removed] for n in nodes}
    index, low, on, st, out = {}, {}, set(), [], []
    cnt = [0]
    for root in nodes:
        if root in index:
            continue
        work = [(root, iter(succ[root]))]
        index[root] = low[root] = cnt[0]
        cnt[0] += 1
        st.append(root)
        on.add(root)
        while work:
            u, it = work[-1]
            adv = False
            for v in it:
                if v not in index:
                    index[v] = low[v] = cnt[0]
                    cnt[0] += 1
                    st.append(v)
                    on.add(v)
                    work.append((v, iter(succ[v])))
                    adv = True
                    break
                elif v in on:
                    low[u] = min(low[u], index[v])
            if adv:
                continue
            work.pop()
            if work:
                low[work[-1][0]] = min(low[work[-1][0]], low[u])
            if low[u] == index[u]:
                comp = []
                while True:
                    w = st.pop()
                    on.discard(w)
                    comp.append(w)
                    if w == u:
                        break
                if len(comp) > 1 or u in succ[u]:
                    out.append(sorted(comp))
    return out


def recursive_sccs(prog, keys):
    """call-graph SCCs (recursion) among the given body keys"""
    cg = prog.call_graph()
    keys = {k for k in keys if not prog.absorbed(k)}
    # helpers that are inlined into all their callers are contracted: the graph is the one of the helper-transparent views
    succ = {k: [c for c in prog.callees_of(prog.body(k)) if c in keys] for k in keys}
    index, low, on, st, out = {}, {}, set(), [], []
    cnt = [0]
    for root in sorted(keys):
        if root in index:
            continue
        work = [(root, iter(succ[root]))]
        index[root] = low[root] = cnt[0]
        cnt[0] += 1
        st.append(root)
        on.add(root)
        while work:
            u, it = work[-1]
            adv = False
            for v in it:
                if v not in index:
                    index[v] = low[v] = cnt[0]
                    cnt[0] += 1
                    st.append(v)
                    on.add(v)
                    work.append((v, iter(succ[v])))
                    adv = True
                    break
                elif v in on:
                    low[u] = min(low[u], index[v])
            if adv:
                continue
            work.pop()
            if work:
                low[work[-1][0]] = min(low[work[-1][0]], low[u])
            if low[u] == index[u]:
                comp = []
                while True:
                    w = st.pop()
                    on.discard(w)
                    comp.append(w)
                    if w == u:
                        break
                if len(comp) > 1 or u in succ[u]:
                    out.append(sorted(comp))
    return out


def _has_cycle(body, nodes):
    nodes = set(nodes)
    color = {}
    for root in nodes:
        if root in color:
            continue
        stack = [(root, iter([x for x in body.succ[root] if x in nodes]))]
        color[root] = 1
        while stack:
            u, it = stack[-1]
            adv = False
            for v in it:
                if color.get(v) == 1:
                    return True
                if v not in color:
                    color[v] = 1
                    stack.append((v, iter([x for x in body.succ[v] if x in nodes])))
                    adv = True
                    break
            if not adv:
                color[u] = 2
                stack.pop()
    return False


def counted_loop(body, scc):
    """A `while n > 0 { n -= 1; .. }` / `while i < K { ..; i += 1 }` loop: returns {"counter", "bound", "step_blocks", "test_bb"} when
    the SCC is driven by an integer local that (1) is compared with a constant in a switch of the SCC one of whose edges
    leaves the SCC, (2) is only ever changed inside the SCC by +-1 steps in the terminating direction, (3) every cycle of the
    SCC passes such a step, (4) has a constant initial value, (5) never has its address taken mutably. Else None."""
    from .panic_allow import interval
    sset = set(scc)
    for c, d in enumerate(body.locals):
        if d["ty"] not in ("usize", "u8", "u16", "u32", "u64", "i8", "i16", "i32", "i64", "isize"):
            continue
        defs = body.defs.get(c, [])
        if not defs:
            continue
        inside = [(k, bb, j, x) for k, bb, j, x in defs if bb in sset]
        outside = [(k, bb, j, x) for k, bb, j, x in defs if bb not in sset]
        if not inside or not outside:
            continue
        # steps: `c = move (_t.0)` with `_t = Sub/AddWithOverflow(copy c, const 1)`, or plain `c = Sub(c, 1)`
        direction = None
        ok = True
        step_blocks = []
        for k, bb, j, x in inside:
            if k != "stmt" or x["s"] != "assign" or x["lhs"]["p"]:
                ok = False
                break
            rv = x["rv"]
            op = None
            if rv["k"] == "use":
                pl = op_place(rv["op"])
                if pl is not None and len(pl["p"]) == 1 and isinstance(pl["p"][0], dict) and pl["p"][0].get("f") == 0:
                    for k2, bb2, j2, x2 in body.defs.get(pl["l"], []):
                        if k2 == "stmt" and x2["s"] == "assign" and x2["rv"]["k"] == "binop" and x2["rv"]["op"] in ("SubWithOverflow", "AddWithOverflow"):
                            op = x2["rv"]
            elif rv["k"] == "binop" and rv["op"] in ("Sub", "Add", "SubUnchecked", "AddUnchecked"):
                op = rv
            if op is None or op_local(op["a"]) != c or (op_const(op["b"]) or {}).get("int") != 1:
                ok = False
                break
            dr = "down" if op["op"].startswith("Sub") else "up"
            if direction not in (None, dr):
                ok = False
                break
            direction = dr
            step_blocks.append(bb)
        if not ok or direction is None:
            continue
        # address taken mutably anywhere?
        taken = False
        for i, blk in enumerate(body.blocks):
            for st in blk["stmts"]:
                if st["s"] == "assign" and st["rv"]["k"] in ("ref", "rawptr") and st["rv"]["place"]["l"] == c and st["rv"].get("bk", "") not in ("shared", "Shared", "fake"):
                    taken = True
        if taken:
            continue
        # the exit test
        test_bb = None
        test_k = None
        test_op = None
        for i in sorted(sset):
            t = body.term(i)
            if t["t"] != "switch" or not any(x not in sset for x in body.succ[i]):
                continue
            dl = op_local(t["discr"])
            for k2, bb2, j2, x2 in body.defs.get(dl, []):
                if k2 == "stmt" and x2["s"] == "assign" and x2["rv"]["k"] == "binop" and x2["rv"]["op"] in ("Gt", "Ge", "Ne", "Lt", "Le", "Eq"):
                    a, b_ = x2["rv"]["a"], x2["rv"]["b"]
                    la, lb = op_local(a), op_local(b_)
                    # the compared value is the counter or a fresh copy of it
                    def is_c(l):
                        if l == c:
                            return True
                        ds = body.defs.get(l, [])
                        return len(ds) == 1 and ds[0][0] == "stmt" and ds[0][3]["rv"]["k"] == "use" and op_local(ds[0][3]["rv"]["op"]) == c and not op_place(ds[0][3]["rv"]["op"])["p"]
                    other = b_ if (la is not None and is_c(la)) else (a if (lb is not None and is_c(lb)) else None)
                    if other is not None and (op_const(other) is not None or interval(body, other) is not None):
                        test_bb = i
                        iv_ = interval(body, other)
                        test_k = iv_[1] if iv_ else None
                        test_op = x2["rv"]["op"]
        if test_bb is None:
            continue
        # every cycle passes a step
        if _has_cycle(body, [x for x in sset if x not in set(step_blocks)]):
            continue
        init = None
        for k, bb, j, x in outside:
            if k == "stmt" and x["s"] == "assign" and x["rv"]["k"] == "use":
                iv = interval(body, x["rv"]["op"]) if op_const(x["rv"]["op"]) is None else None
                cc = op_const(x["rv"]["op"])
                if cc is not None and "int" in cc:
                    init = cc["int"] if init is None else max(init, cc["int"])
                elif iv:
                    init = iv[1] if init is None else max(init, iv[1])
                else:
                    init = None
                    break
            else:
                init = None
                break
        if init is None:
            continue
        bound = init if direction == "down" else None
        if direction == "up" and test_k is not None and init <= test_k:
            bound = test_k - init + (1 if test_op in ("Le", "Ge") else 0)
        return {"counter": c, "bound": bound, "direction": direction, "step_blocks": step_blocks, "test_bb": test_bb, "limit": test_k}
    return None
