"""E4 — checker self-test: scripted single-edit variants of the CURRENT /repo, applied to a scratch copy outside
/repo and /verif; the property's rules must report a violation naming the expected rule. Validates the checker,
not acmed: a miss is reported as SELFTEST-MISS (never as VIOLATION)."""
import json
import os
import shutil
import subprocess
import sys
import tempfile

from . import extract

VERIF = extract.VERIF


def scratch_base():
    """one scratch area per process (concurrent checks must not share a scratch copy)"""
    base = os.path.join(tempfile.gettempdir(), "acmed-verif-mut-%d" % os.getpid())
    os.makedirs(base, exist_ok=True)
    return base


def cleanup(base, scratch):
    import hashlib
    shutil.rmtree(base, ignore_errors=True)
    tag = hashlib.sha256(os.path.abspath(scratch).encode()).hexdigest()[:10]
    for prof in ("dev", "release"):
        shutil.rmtree(os.path.join(extract.CACHE, "facts", "%s-%s" % (prof, tag)), ignore_errors=True)


def load_mutants(prop):
    p = os.path.join(VERIF, "mutants", "%s.json" % prop)
    if not os.path.exists(p):
        return []
    return json.load(open(p))


def copy_repo(dst):
    if os.path.exists(dst):
        shutil.rmtree(dst)
    shutil.copytree(extract.repo_path(), dst, ignore=shutil.ignore_patterns("target", ".git"), symlinks=True)


def apply_edits(root, edits):
    for e in edits:
        p = os.path.join(root, e["file"])
        s = open(p).read()
        if s.count(e["old"]) < 1:
            return "anchor text not found in %s: %r" % (e["file"], e["old"][:60])
        s = s.replace(e["old"], e["new"], e.get("count", 1))
        open(p, "w").write(s)
    return None


def run_mutants(prop, only=None, keep=False):
    muts = load_mutants(prop)
    results = []
    base = scratch_base()
    scratch = os.path.join(base, "repo")
    out = os.path.join(base, "out")
    for m in muts:
        if only and m["name"] not in only:
            continue
        copy_repo(scratch)
        err = apply_edits(scratch, m["edits"])
        if err:
            results.append({"mutant": m["name"], "status": "SKIPPED", "why": err})
            continue
        shutil.rmtree(out, ignore_errors=True)
        env = dict(os.environ)
        env["ACMED_REPO"] = scratch
        env["VERIF_OUT"] = out
        r = subprocess.run([os.path.join(VERIF, "bin", "check"), prop, "--tier", "quick"], env=env, cwd=VERIF,
                           stdout=subprocess.PIPE, stderr=subprocess.STDOUT, text=True)
        viol = [l for l in r.stdout.splitlines() if l.startswith("VIOLATION") or l.strip().startswith("rule ")]
        hit_rules = sorted({l.strip().split()[1] for l in r.stdout.splitlines() if l.strip().startswith("rule ")})
        fatal = any(l.startswith("FATAL:") for l in r.stdout.splitlines())
        exp = m.get("expect_rules")
        if fatal:
            status = "BUILD-FAILED"
        elif r.returncode == 1 and (not exp or set(exp) & set(hit_rules)):
            status = "CAUGHT"
        elif r.returncode == 1:
            status = "CAUGHT-OTHER-RULE"
        else:
            status = "SELFTEST-MISS"
        results.append({"mutant": m["name"], "status": status, "rules": hit_rules, "what": m.get("what", ""),
                        "output": viol[:6] if status != "BUILD-FAILED" else r.stdout[-1500:].splitlines()[-12:]})
    if not keep:
        cleanup(base, scratch)
    return results


def run_patch(prop, patch, keep=False):
    """apply a git patch (seeded change) to a scratch copy of the current /repo and run the property's quick check"""
    base = scratch_base()
    scratch = os.path.join(base, "repo")
    out = os.path.join(base, "out")
    copy_repo(scratch)
    r = subprocess.run(["patch", "-p1", "-s", "-i", os.path.abspath(patch)], cwd=scratch, stdout=subprocess.PIPE, stderr=subprocess.STDOUT, text=True)
    if r.returncode != 0:
        return {"status": "PATCH-FAILED", "output": r.stdout.splitlines()[-5:]}
    shutil.rmtree(out, ignore_errors=True)
    env = dict(os.environ)
    env["ACMED_REPO"] = scratch
    env["VERIF_OUT"] = out
    r = subprocess.run([os.path.join(VERIF, "bin", "check"), prop, "--tier", "quick"], env=env, cwd=VERIF,
                       stdout=subprocess.PIPE, stderr=subprocess.STDOUT, text=True)
    lines = [l for l in r.stdout.splitlines() if l.startswith("VIOLATION") or l.strip().startswith("rule ") or l.startswith("FATAL:")]
    status = "BUILD-FAILED" if any(l.startswith("FATAL:") for l in r.stdout.splitlines()) else ("CAUGHT" if r.returncode == 1 else "MISSED")
    if not keep:
        cleanup(base, scratch)
    return {"status": status, "output": lines[:8]}


if __name__ == "__main__":
    if sys.argv[1] == "--patch":
        res = run_patch(sys.argv[2], sys.argv[3])
        print(res["status"])
        for l in res["output"]:
            print("   ", l)
        sys.exit(0)
    prop = sys.argv[1]
    only = sys.argv[2:] or None
    res = run_mutants(prop, only)
    for r in res:
        print("%-14s %-40s %s" % (r["status"], r["mutant"], ",".join(r.get("rules", []))))
        if r["status"] not in ("CAUGHT",):
            for l in r.get("output", []) or [r.get("why", "")]:
                print("      ", l)
