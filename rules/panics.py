"""T8 — panic-source and process-termination enumeration over MIR facts.

A *source* is a construct that can unwind/abort at run time on some input:
 - an `Assert` terminator (overflow, division/remainder by zero, bounds check, ...),
 - a call to one of the frozen panicking APIs below (declared or resolved callee),
 - a call that terminates the process (`process::exit`, `abort`).
Sources are keyed (function, kind, callee-or-assert-kind); allow-tables bound the COUNT per key, never a line.
"""
from .mir import strip_generics

# callee (generics stripped) -> kind.  A trailing '*' is a prefix match; a leading '*' a substring match.
PANICKING_APIS = [
    ("core::option::Option::unwrap", "unwrap"),
    ("core::option::Option::expect", "unwrap"),
    ("core::option::Option::unwrap_unchecked", "unwrap"),
    ("core::result::Result::unwrap", "unwrap"),
    ("core::result::Result::expect", "unwrap"),
    ("core::result::Result::unwrap_err", "unwrap"),
    ("core::result::Result::expect_err", "unwrap"),
    ("core::panicking::*", "panic"),
    ("std::rt::begin_panic*", "panic"),
    ("std::panicking::*", "panic"),
    ("core::option::unwrap_failed", "panic"),
    ("core::option::expect_failed", "panic"),
    ("core::result::unwrap_failed", "panic"),
    ("core::slice::index::*", "index"),
    ("core::ops::index::Index::index", "index"),
    ("core::ops::index::IndexMut::index_mut", "index"),
    ("alloc::string::String::replace_range", "range"),
    ("alloc::string::String::drain", "range"),
    ("alloc::string::String::insert", "range"),
    ("alloc::string::String::insert_str", "range"),
    ("alloc::string::String::remove", "range"),
    ("alloc::string::String::split_off", "range"),
    ("alloc::string::String::truncate", "range"),                 # panics when the new length is not on a char boundary
    ("core::str::<impl str>::split_at_mut", "range"),
    ("core::slice::<impl [T]>::swap", "range"),
    ("core::slice::<impl [T]>::rotate_left", "range"),
    ("core::slice::<impl [T]>::rotate_right", "range"),
    ("core::slice::<impl [T]>::chunks_exact", "range"),
    ("core::slice::<impl [T]>::chunks_mut", "range"),
    ("core::slice::<impl [T]>::rchunks", "range"),
    ("core::slice::<impl [T]>::clone_from_slice", "range"),
    ("core::slice::<impl [T]>::copy_within", "range"),
    ("alloc::vec::Vec::splice", "range"),
    ("alloc::vec::Vec::extend_from_within", "range"),
    ("core::char::methods::<impl char>::to_digit", "range"),
    ("core::char::methods::<impl char>::from_digit", "range"),
    ("tokio::time::interval::interval", "time"),
    ("tokio::time::interval::interval_at", "time"),
    ("alloc::vec::Vec::remove", "range"),
    ("alloc::vec::Vec::swap_remove", "range"),
    ("alloc::vec::Vec::insert", "range"),
    ("alloc::vec::Vec::drain", "range"),
    ("alloc::vec::Vec::split_off", "range"),
    ("core::slice::<impl [T]>::copy_from_slice", "range"),
    ("core::slice::<impl [T]>::split_at", "range"),
    ("core::slice::<impl [T]>::split_at_mut", "range"),
    ("core::slice::<impl [T]>::chunks", "range"),
    ("core::slice::<impl [T]>::windows", "range"),
    ("core::str::<impl str>::split_at", "range"),
    ("core::cell::RefCell::borrow", "refcell"),
    ("core::cell::RefCell::borrow_mut", "refcell"),
    ("rand::rng::Rng::gen_range", "gen_range"),
    ("rand::Rng::gen_range", "gen_range"),
    ("std::thread::functions::spawn", "spawn"),
    ("std::thread::spawn", "spawn"),
    ("core::iter::traits::iterator::Iterator::step_by", "range"),
    ("std::process::exit", "exit"),
    ("std::process::abort", "exit"),
    ("core::intrinsics::abort", "exit"),
    ("std::time::Instant::duration_since", "time"),
    ("std::time::Instant::elapsed", "time-benign"),
    ("core::time::Duration::from_secs_f64", "time"),
    ("core::time::Duration::from_secs_f32", "time"),
    ("core::time::Duration::mul_f64", "time"),
    ("core::time::Duration::mul_f32", "time"),
    ("tokio::runtime::runtime::Runtime::block_on", "benign"),
    # allocation of a REQUESTED size: `capacity overflow` panic / allocation-failure abort when the size is not bounded
    ("alloc::vec::Vec::with_capacity", "capacity"),
    ("alloc::vec::Vec::reserve", "capacity"),
    ("alloc::vec::Vec::reserve_exact", "capacity"),
    ("alloc::vec::Vec::resize", "capacity"),
    ("alloc::vec::from_elem", "capacity"),
    ("alloc::string::String::with_capacity", "capacity"),
    ("alloc::string::String::reserve", "capacity"),
    ("alloc::collections::vec_deque::VecDeque::with_capacity", "capacity"),
    ("std::collections::hash::map::HashMap::with_capacity", "capacity"),
    ("std::collections::hash::set::HashSet::with_capacity", "capacity"),
    ("alloc::str::<impl str>::repeat", "capacity"),
    ("alloc::slice::<impl [T]>::repeat", "capacity"),
]
CAPACITY_ARG = {"alloc::vec::Vec::with_capacity": 0, "alloc::string::String::with_capacity": 0, "alloc::collections::vec_deque::VecDeque::with_capacity": 0,
                "std::collections::hash::map::HashMap::with_capacity": 0, "std::collections::hash::set::HashSet::with_capacity": 0}     # others: argument 1
# operator traits that panic on overflow when implemented by Duration / Instant / SystemTime
ARITH_TRAITS = ("core::ops::arith::Add", "core::ops::arith::Sub", "core::ops::arith::Mul", "core::ops::arith::Div",
                "core::ops::arith::AddAssign", "core::ops::arith::SubAssign", "core::ops::arith::MulAssign",
                "core::ops::arith::DivAssign")
TIME_TYPES = ("core::time::Duration", "std::time::Instant", "std::time::SystemTime")


def classify_call(cs):
    """returns (kind, callee-name) when the call site is a panic/termination source, else None"""
    # `x[..]` (RangeFull) cannot be out of bounds
    if cs.fn in ("core::ops::index::Index::index", "core::ops::index::IndexMut::index_mut") and len(cs.gargs) > 1 \
            and cs.gargs[1] == "core::ops::range::RangeFull":
        return None
    for cand in (cs.res, cs.fn):
        if cand is None:
            continue
        for pat, kind in PANICKING_APIS:
            if pat.endswith("*"):
                if cand.startswith(pat[:-1]):
                    return kind, cand
            elif cand == pat:
                return kind, cand
        # <Duration as Add>::add and friends
        if cand.startswith("<") and " as " in cand:
            ty, rest = cand[1:].split(" as ", 1)
            tr = rest.split(">::")[0]
            tr = tr.split("<")[0]
            if tr in ARITH_TRAITS and any(ty.startswith(t) for t in TIME_TYPES):
                return "time-arith", cand
            if tr in ("core::ops::index::Index", "core::ops::index::IndexMut"):
                return "index", cand
    return None


class Source:
    def __init__(self, body, bb, kind, what, line):
        self.body = body
        self.bb = bb
        self.kind = kind      # assert | unwrap | panic | index | range | gen_range | spawn | exit | time-arith | ...
        self.what = what      # assert kind or callee
        self.line = line

    def key(self):
        return (self.body.key, self.kind, self.what)

    def where(self):
        return "%s:%s (%s bb%d)" % (self.body.file_of(self.bb), self.line, self.body.key, self.bb)

    def __repr__(self):
        return "%s %s @ %s" % (self.kind, self.what, self.where())


BENIGN = ("benign", "time-benign")


def sources_in(body, blocks=None, include_expansion=True):
    """panic sources of `body` within `blocks` (default: all live normal-flow blocks)"""
    live = body.live_blocks()
    if blocks is not None:
        live = live & set(blocks)
    out = []
    for bb in sorted(live):
        t = body.term(bb)
        if t["t"] == "assert":
            k = t["kind"]
            # resumed-after-return / -panic asserts belong to the coroutine machinery
            if k.startswith("Resumed"):
                continue
            out.append(Source(body, bb, "assert", k, t["line"]))
        elif t["t"] == "call":
            from .mir import CallSite
            cs = CallSite(body, bb, t)
            r = classify_call(cs)
            if r and r[0] not in BENIGN:
                out.append(Source(body, bb, r[0], r[1], t["line"]))
    return out


def is_fmt_or_log_plumbing(src):
    """format_args!/log! expansions call nothing that panics; kept for reference"""
    return False
