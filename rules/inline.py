"""Helper-transparent view of a body: workspace functions that no rule names (private helpers, extracted blocks) are
inlined into their callers, so that path rules (must-pass-through, ordering, lock state) and provenance see through an
`extract function` refactoring exactly as they see the original code — and cannot be evaded by hiding a step in a helper.

 sync fn H      : the call block gets `param_k = arg_k` assignments and jumps to a copy of H's blocks; H's returns
                  assign the call's destination and jump to the call's target.
 async fn H     : H's coroutine body is spliced in at the CREATION site of the future (its upvars are bound to the
                  arguments); every poll site of that future is rewritten to `dest = Poll::Ready(result)`.
Functions named by a rule (any string literal of rules/*.py, rules/props/*.py) are never inlined: they stay visible as
call / await sites. Recursion, bodies larger than a bound, and futures that are not awaited in the caller are left alone.
"""
import copy
import glob
import os
import re

from .mir import Body, CallSite, forward_locals, op_local, strip_generics, AWAIT_PLUMBING

_KEEP = None
POLL = "core::future::future::Future::poll"
MAX_CALLEE_BLOCKS = 1500
MAX_TOTAL_BLOCKS = 40000


def anchor_literals():
    global _KEEP
    if _KEEP is None:
        lits = set()
        here = os.path.dirname(os.path.abspath(__file__))
        for f in glob.glob(os.path.join(here, "*.py")) + glob.glob(os.path.join(here, "props", "*.py")):
            if f.endswith("inline.py"):
                continue
            src = open(f).read()
            for m in re.finditer(r"\"((?:[^\"\\]|\\.)*)\"|'((?:[^'\\]|\\.)*)'", src):
                s = m.group(1) if m.group(1) is not None else m.group(2)
                if s and 3 < len(s) < 200 and re.match(r"^[*<A-Za-z_]", s):
                    lits.add(s)
        _KEEP = lits
    return _KEEP


def is_anchored(key):
    """functions that exist on the tree the rules were written for (oracles/known_functions.json) keep their identity and
    stay visible as call sites; only functions that are NEW with respect to that list (helpers extracted by a refactoring,
    or code moved into a fresh function) are inlined into their callers"""
    base = strip_generics(key).replace("::{closure#0}", "")
    return original_function(base)


_ORIGINALS = None


def original_function(base):
    """functions that exist on the tree the rules were written for keep their identity; only NEW helpers are inlined"""
    global _ORIGINALS
    if _ORIGINALS is None:
        p = os.path.join(os.path.dirname(os.path.dirname(os.path.abspath(__file__))), "oracles", "known_functions.json")
        try:
            import json
            _ORIGINALS = set(json.load(open(p)))
        except Exception:
            _ORIGINALS = set()
    return base in _ORIGINALS


def _shift(x, off, boff, poff):
    """deep copy of a JSON fragment with locals shifted by off, promoted indices by poff (block targets handled apart)"""
    if isinstance(x, list):
        return [_shift(y, off, boff, poff) for y in x]
    if not isinstance(x, dict):
        return x
    out = {}
    is_place = "l" in x and "p" in x and isinstance(x.get("p"), list)
    for k, v in x.items():
        if k == "l" and (is_place or x.get("s") in ("live", "dead")) and isinstance(v, int):
            out[k] = v + off
        elif k == "idx" and isinstance(v, int):
            out[k] = v + off
        elif k == "promoted" and isinstance(v, int):
            out[k] = v + poff
        else:
            out[k] = _shift(v, off, boff, poff)
    return out


def _shift_term_targets(t, boff):
    for k in ("target", "unwind", "otherwise", "drop", "imaginary"):
        if isinstance(t.get(k), int) and not isinstance(t.get(k), bool):
            t[k] = t[k] + boff
    if "arms" in t:
        t["arms"] = [[v, tg + boff] for v, tg in t["arms"]]


def only_pred(blocks, target, pred):
    """True when `pred` is the only block that can jump to `target`"""
    for i, b in enumerate(blocks):
        if i == pred:
            continue
        t = b["term"]
        tg = [t.get(k) for k in ("target", "otherwise", "drop") if isinstance(t.get(k), int) and not isinstance(t.get(k), bool)]
        tg += [x for v, x in t.get("arms", [])]
        if target in tg:
            return False
    return True


def _assign(lhs, rv, line=0):
    return {"s": "assign", "lhs": lhs, "rv": rv, "line": line, "exp": True}


def inlined_body(prog, key, depth=3):
    cache = prog.__dict__.setdefault("_inlined", {})
    if key in cache:
        return cache[key]
    base = prog.bodies.get(key)
    if base is None:
        return None
    raw = {k: v for k, v in base.raw.items() if k not in ("body", "promoted")}
    raw["body"] = {"arg_count": base.arg_count, "locals": list(base.locals), "blocks": copy.deepcopy(base.blocks)}
    raw["promoted"] = list(base.promoted)
    n_inl = _inline_into(prog, raw, list(range(len(raw["body"]["blocks"]))), [key], depth)
    if n_inl == 0:
        cache[key] = base
        return base
    vb = Body(prog, base.crate, raw)
    vb.inlined = n_inl
    cache[key] = vb
    return vb


def _callee_of(prog, term):
    for nm in (term.get("res"), term.get("fn")):
        for cand in (nm, strip_generics(nm) if nm else None):
            if cand and cand in prog.bodies:
                return cand
    return None


_KNOWN_TRAITS = None


def _known_trait(trait):
    """the trait existed on the tree the rules were written for (some known function is an impl of it); a NEW private trait introduced
    by a refactoring is plumbing like a new helper: calls of its methods are inlined once the impl is resolved"""
    global _KNOWN_TRAITS
    if _KNOWN_TRAITS is None:
        original_function("")
        _KNOWN_TRAITS = set()
        for k in _ORIGINALS or ():
            m = re.match(r"^<.* as ([\w:]+)(?:<.*>)?>::", k)
            if m:
                _KNOWN_TRAITS.add(m.group(1))
    return trait in _KNOWN_TRAITS


def _type_subst(src, call_term):
    """{type parameter name: concrete type} for a generic helper with exactly one type parameter inlined at a call site that names
    the instance (`resolve::<Uid>(..)`): lets trait-method calls inside the helper (`T::from_number`) resolve to the impl"""
    import re
    names = set()
    for b in src.blocks:
        tt = b["term"]
        if tt["t"] == "call":
            for g in tt.get("gargs", []) or []:
                if re.fullmatch(r"[A-Z][A-Za-z0-9]{0,8}", g or ""):
                    names.add(g)
    gargs = [g for g in (call_term.get("gargs") or []) if g and not g.startswith(("'", "{closure")) and not re.fullmatch(r"[A-Z][A-Za-z0-9]{0,8}", g)]
    if len(names) == 1 and len(gargs) == 1 and len(call_term.get("gargs") or []) == 1:
        return {next(iter(names)): gargs[0]}
    return {}


def _instantiate(prog, term, subst):
    g = term.get("gargs") or []
    if not any(x in subst for x in g):
        return
    term["gargs"] = [subst.get(x, x) for x in g]
    fn = strip_generics(term.get("fn") or "")
    if term.get("res") is None and "::" in fn and term["gargs"]:
        trait, method = fn.rsplit("::", 1)
        key = "<%s as %s>::%s" % (term["gargs"][0], trait, method)
        if key in prog.bodies:
            term["res"] = key


def _inline_into(prog, raw, block_ids, stack, depth):
    if depth <= 0:
        return 0
    body = raw["body"]
    blocks = body["blocks"]
    count = 0
    tmp = Body(prog, "tmp", dict(raw, key=raw["key"]))  # for flow helpers on the current state
    for bi in block_ids:
        if len(blocks) > MAX_TOTAL_BLOCKS:
            break
        blk = blocks[bi]
        t = blk["term"]
        if t["t"] != "call" or blk.get("cleanup") or t.get("target") is None:
            continue
        ck = _callee_of(prog, t)
        if ck is None:
            continue
        callee = prog.bodies[ck]
        if callee.crate not in ("acmed", "tacd", "acme_common") or callee.kind not in ("Fn", "AssocFn"):
            continue
        if callee.exp or ck in stack or is_anchored(ck):
            continue
        decl = strip_generics(t.get("fn") or "")
        if decl and decl != ck and decl.split("::")[0] in ("acmed", "tacd", "acme_common") and decl not in prog.bodies and _known_trait(decl.rsplit("::", 1)[0]):
            # a call through a workspace TRAIT method (`HookEnvData::set_env`): rules name the trait method, whatever impl it
            # resolves to — a re-organised impl (blanket impl, moved impl) must not make these call sites disappear
            continue
        is_async = callee.raw.get("is_async")
        src = prog.bodies.get(ck + "::{closure#0}") if is_async else callee
        if src is None or src.n > MAX_CALLEE_BLOCKS or (is_async and is_anchored(ck + "::{closure#0}")):
            continue
        off = len(body["locals"])
        boff = len(blocks)
        poff = len(raw["promoted"])
        dest = t.get("dest")
        target = t["target"]
        args = t.get("args", [])
        if is_async:
            # the future must be awaited in this body: find its poll sites
            tmp2 = Body(prog, "tmp", raw)
            carried = forward_locals(tmp2, [dest["l"]], lambda cs: cs.fn in AWAIT_PLUMBING)
            poll_sites = [i for i, b2 in enumerate(blocks) if b2["term"]["t"] == "call" and strip_generics(b2["term"].get("fn")) == POLL
                          and strip_generics(b2["term"].get("res")) == src.key and op_local(b2["term"]["args"][0]) in carried and not b2.get("cleanup")]
            if not poll_sites:
                continue
            from .flow import async_param_map
            pm = async_param_map(prog, src)
        body["locals"].extend(src.locals)
        raw["promoted"].extend(src.promoted)
        new_ids = []
        subst = _type_subst(src, t)
        for j, sb in enumerate(src.blocks):
            nb = _shift(sb, off, boff, poff)
            _shift_term_targets(nb["term"], boff)
            tt = nb["term"]
            if tt["t"] == "return" and not nb.get("cleanup"):
                if is_async:
                    nb["term"] = {"t": "goto", "target": target, "line": tt.get("line"), "exp": True, "file": tt.get("file", raw.get("file"))}
                else:
                    if dest is not None:
                        nb["stmts"].append(_assign(copy.deepcopy(dest), {"k": "use", "op": {"move": {"l": off, "p": []}}}, tt.get("line", 0)))
                    nb["term"] = {"t": "goto", "target": target, "line": tt.get("line"), "exp": True, "file": tt.get("file", raw.get("file"))}
            if "file" not in nb["term"]:
                nb["term"]["file"] = src.file
            if subst and nb["term"]["t"] == "call":
                _instantiate(prog, nb["term"], subst)
            nb["inl"] = ck
            blocks.append(nb)
            new_ids.append(boff + j)
        # bind arguments
        binds = []
        if is_async:
            for ui, pi in sorted(pm.items()):
                if pi < len(args):
                    binds.append(_assign({"l": off + 1, "p": [{"f": ui, "upvar_of": src.key}]}, {"k": "use", "op": copy.deepcopy(args[pi])}, t.get("line", 0)))
            for pb in poll_sites:
                pt = blocks[pb]["term"]
                blocks[pb]["stmts"].append(_assign(copy.deepcopy(pt["dest"]), {"k": "agg", "agg": "adt", "adt": "core::task::poll::Poll", "variant": "Ready", "fields": ["0"],
                                                                              "ops": [{"move": {"l": off, "p": []}}]}, pt.get("line", 0)))
                blocks[pb]["term"] = {"t": "goto", "target": pt["target"], "line": pt.get("line"), "exp": True, "file": pt.get("file", raw.get("file")),
                                      "inlined_poll_of": src.key}
                # the inlined future is complete here: the `match poll { Ready(x) => .., Pending => yield }` that follows can only take
                # its Ready arm — drop the Pending edge so that no rule mistakes it for a path
                tb = blocks[pt["target"]]
                tt = tb["term"]
                if tt["t"] == "switch" and only_pred(blocks, pt["target"], pb):
                    dl = op_local(tt["discr"])
                    for st in tb["stmts"]:
                        if st["s"] == "assign" and st["lhs"]["l"] == dl and st["rv"]["k"] == "discr" and st["rv"]["place"]["l"] == pt["dest"]["l"] and not st["rv"]["place"]["p"]:
                            ready = [int(v) for v, nm in st["rv"].get("variants", []) if nm == "Ready"]
                            arm = [tg for v, tg in tt["arms"] if ready and v == ready[0]]
                            if arm:
                                tb["term"] = {"t": "goto", "target": arm[0], "line": tt.get("line"), "exp": True, "file": tt.get("file", raw.get("file"))}
        else:
            for k, a in enumerate(args):
                binds.append(_assign({"l": off + 1 + k, "p": []}, {"k": "use", "op": copy.deepcopy(a)}, t.get("line", 0)))
        blk["stmts"].extend(binds)
        blk["term"] = {"t": "goto", "target": boff, "line": t.get("line"), "exp": True, "file": t.get("file", raw.get("file")), "inlined_call_of": ck}
        count += 1
        count += _inline_into(prog, raw, new_ids, stack + [ck], depth - 1)
    return count
