"""T7 — provenance (backward may-dependence slices) over one MIR body, flow-insensitive over locals.

`origins(body, operand_or_place)` follows assignments, references, casts, aggregates, arithmetic and *external* calls
(every argument flows to the result; a `&mut` first argument is also updated by the other arguments: push/extend/insert/…)
back to leaves:
    param:N[.field…]     a parameter of the function (N = MIR local index, 1-based), optionally a field path read from it
    upvar:N[.field…]     captured variable N of a closure / coroutine (for an `async fn`, upvar N-? maps to its parameter)
    call:<callee>        the result of a workspace function (opaque by default) or of a callee matched by `opaque`
    const:<rendering>    a constant
It returns the leaves, the set of external callees passed through (`via`) and the (adt, field) pairs read on the way.
"""
import json
from collections import deque

from .mir import CallSite, op_const, op_local, op_place, strip_generics

WORKSPACE = ("acmed::", "tacd::", "acme_common::", "<acmed::", "<tacd::", "<acme_common::")


def is_workspace_name(name):
    if not name:
        return False
    if name.startswith(WORKSPACE):
        return True
    # `<T as Trait>::m` where T is a workspace type
    return name.startswith("<") and any(w in name.split(" as ")[0] for w in ("acmed::", "tacd::", "acme_common::"))


class Slice:
    def __init__(self):
        self.leaves = set()
        self.via = set()
        self.fields = set()
        self.calls = []      # CallSite of every call (opaque or not) on the slice
        self.consts = []     # decoded constants met
        self.locals = set()
        self.aggs = set()    # (adt, variant) constructed on the slice

    def has_leaf(self, prefix):
        return any(l == prefix or l.startswith(prefix) for l in self.leaves)

    def leaves_like(self, prefix):
        return sorted(l for l in self.leaves if l.startswith(prefix))

    def via_any(self, *names):
        for v in self.via:
            for n in names:
                if v == n or v.endswith("::" + n) or (n.startswith("*") and n[1:] in v):
                    return True
        return False

    def calls_named(self, *names):
        return [c for c in self.calls if c.is_(*names)]

    def __repr__(self):
        return "Slice(leaves=%s via=%s)" % (sorted(self.leaves), sorted(self.via))


def _mut_defs(body):
    """local -> list of CallSite where a `&mut local` (or a reborrow of it) is passed as first argument"""
    if getattr(body, "_mutdefs", None) is not None:
        return body._mutdefs
    refs = {}  # temp local -> base local of `&mut place`
    for i, b in enumerate(body.blocks):
        if b.get("cleanup"):
            continue
        for st in b["stmts"]:
            if st["s"] == "assign" and st["rv"]["k"] == "ref" and st["rv"]["bk"] == "mut" and not st["lhs"]["p"]:
                refs[st["lhs"]["l"]] = st["rv"]["place"]
    out = {}
    for cs in body.calls:
        if not cs.args:
            continue
        tys = cs.term.get("arg_tys", [])
        for pos, a in enumerate(cs.args):
            if pos >= len(tys) or not tys[pos].startswith("&mut "):
                continue
            l = op_local(a)
            seen = set()
            while l is not None and l in refs and l not in seen:
                seen.add(l)
                p = refs[l]
                base = p["l"]
                derefs = any(e == "*" for e in p["p"])
                out.setdefault(base, []).append((cs, pos))
                if derefs:
                    l = base
                else:
                    break
            if l is not None and l not in refs:
                # the &mut value itself is a parameter / upvar / loaded from somewhere: updates go to it
                out.setdefault(l, []).append((cs, pos))
    body._mutdefs = out
    return out


def _path_of(place):
    names = []
    upvar = None
    for e in place["p"]:
        if isinstance(e, dict):
            if "upvar_of" in e and upvar is None and not names:
                upvar = e["f"]
            elif "n" in e:
                names.append(e["n"])
            elif "tuple" in e:
                names.append(str(e["f"]))
            elif "downcast" in e:
                names.append("as:" + e["downcast"])
    return upvar, names


def origins(body, start, opaque=None, follow_workspace=False, max_nodes=20000, stop_adts=(), through=False):
    """start: operand dict, place dict, local index, or list of those"""
    prog = body.prog
    sl = Slice()
    dq = deque()
    seen = set()
    mutdefs = _mut_defs(body)
    is_closure_like = body.kind == "Closure"

    def is_opaque(cs):
        if opaque is not None:
            r = opaque(cs)
            if r is not None:
                return r
        if follow_workspace:
            return False
        return is_workspace_name(cs.res) or is_workspace_name(cs.fn) and cs.res is None

    def add_local(l):
        if l not in seen:
            seen.add(l)
            dq.append(l)

    def add_place(p):
        upvar, names = _path_of(p)
        stop = False
        for e in p["p"]:
            if isinstance(e, dict) and "n" in e and "adt" in e:
                sl.fields.add((e["adt"], e["n"]))
                if e["adt"] in stop_adts:
                    stop = True
        if stop:
            # the value is a field of one of the ADTs of interest: that field IS the source, do not look further
            return
        for e in p["p"]:
            if False:
                pass
            if isinstance(e, dict) and "tuple" in e:
                sl.fields.add(("tuple", e["f"]))
            if isinstance(e, dict) and "idx" in e:
                add_local(e["idx"])
        l = p["l"]
        # `(*r).field` where r is a reference local defined once: look through the reference so that the field stays visible
        if len(p["p"]) >= 2 and p["p"][0] == "*" and any(isinstance(e, dict) and "f" in e for e in p["p"][1:]) and not (1 <= l <= body.arg_count):
            rd = body.defs.get(l, [])
            if len(rd) == 1 and rd[0][0] == "stmt" and rd[0][3]["s"] == "assign" and not rd[0][3]["lhs"]["p"]:
                rv_ = rd[0][3]["rv"]
                tgt_ = None
                if rv_["k"] in ("ref", "rawptr"):
                    tgt_ = {"l": rv_["place"]["l"], "p": list(rv_["place"]["p"]) + list(p["p"][1:])}
                elif rv_["k"] == "use" and op_place(rv_["op"]) is not None:
                    q = op_place(rv_["op"])
                    tgt_ = {"l": q["l"], "p": list(q["p"]) + list(p["p"])}
                if tgt_ is not None and (tgt_["l"], json.dumps(tgt_["p"], sort_keys=True)) not in seen:
                    seen.add((tgt_["l"], json.dumps(tgt_["p"], sort_keys=True)))
                    sl.locals.add(l)
                    add_place(tgt_)
                    return
        # a field of a CLONE of a struct value whose fields are known individually (`..base.clone()` in a struct literal): the
        # clone is field-wise, so `clone(&base).f` is base.f
        if p["p"] and isinstance(p["p"][0], dict) and "f" in p["p"][0] and not (1 <= l <= body.arg_count):
            src = _clone_source(body, l)
            if src is not None and _only_agg_defs(body, src):
                key = (src, p["p"][0]["f"])
                if key not in seen:
                    seen.add(key)
                    dq.append(key)
                return
        # field-sensitive step for tuple / struct temporaries: `_t.1` follows only operand 1 of `_t = (a, b)`
        if p["p"] and isinstance(p["p"][0], dict) and "f" in p["p"][0] and ("upvar_of" not in p["p"][0] or l > body.arg_count) \
                and not (1 <= l <= body.arg_count) and _only_agg_defs(body, l):
            rest = [e for e in p["p"][1:] if not (isinstance(e, dict) and "downcast" in e)]
            has_more = any(isinstance(e, dict) and "f" in e for e in rest)
            key = (l, p["p"][0]["f"]) if not has_more else (l, p["p"][0]["f"], json.dumps(rest, sort_keys=True))
            if key not in seen:
                seen.add(key)
                dq.append(key)
            return
        if is_closure_like and l == 1 and upvar is not None:
            sl.leaves.add("upvar:%d%s" % (upvar, "".join("." + n for n in names)))
            return
        if 1 <= l <= body.arg_count and not (is_closure_like and l == 1):
            sl.leaves.add("param:%d%s" % (l, "".join("." + n for n in names)))
            # a parameter may still be re-assigned / updated through &mut: follow its defs too
        add_local(l)

    def add_op(o):
        if o is None:
            return
        c = op_const(o)
        if c is not None:
            cc = body.const_of(o) or c
            sl.consts.append(cc)
            if "fn" in c:
                sl.leaves.add("fn:%s" % strip_generics(c.get("res") or c["fn"]))
            else:
                r = cc.get("str", cc.get("int", cc.get("bool", cc.get("variant", cc.get("pp", cc.get("item", "?"))))))
                if "variant" in cc:
                    r = "%s::%s" % (cc.get("adt", ""), cc["variant"])
                sl.leaves.add("const:%s" % (r,))
            return
        p = op_place(o)
        if p is not None:
            add_place(p)

    def start_item(x):
        if isinstance(x, int):
            add_local(x)
        elif isinstance(x, dict):
            if "l" in x and "p" in x:
                add_place(x)
            else:
                add_op(x)
        elif isinstance(x, (list, tuple)):
            for y in x:
                start_item(y)

    start_item(start)
    n = 0
    while dq and n < max_nodes:
        l = dq.popleft()
        n += 1
        if isinstance(l, tuple):
            base, fld = l[0], l[1]
            rest = json.loads(l[2]) if len(l) > 2 else None
            sl.locals.add(base)
            if rest is not None:
                # `(*(state.k)).field..`: resolve state.k to what was stored there, then apply the remaining projection to it
                def apply_rest(src_place, is_ref_of=True):
                    # the slot holds `&P` (is_ref_of): (*slot).rest = P.rest-without-the-leading-deref; or a copy of a place Q that
                    # itself holds the reference: (*slot).rest = (*Q).rest
                    r_ = list(rest)
                    if is_ref_of and r_ and r_[0] == "*":
                        r_ = r_[1:]
                    add_place({"l": src_place["l"], "p": list(src_place["p"]) + r_})
                for kind, bb, j, x in body.defs.get(base, []):
                    if kind != "stmt" or x["s"] != "assign":
                        continue
                    if x["lhs"]["p"]:
                        e = x["lhs"]["p"][0]
                        if not (isinstance(e, dict) and e.get("f") == fld):
                            continue
                        rv = x["rv"]
                    else:
                        rv0 = x["rv"]
                        if rv0["k"] == "agg" and fld < len(rv0["ops"]):
                            rv = {"k": "use", "op": rv0["ops"][fld]}
                        else:
                            add_local(base)
                            continue
                    if rv["k"] in ("use", "cast"):
                        pl = op_place(rv["op"])
                        if pl is None:
                            add_op(rv["op"])
                            continue
                        # a reference temporary `_r = &M` moved into the slot
                        if not pl["p"]:
                            rd = body.defs.get(pl["l"], [])
                            if len(rd) == 1 and rd[0][0] == "stmt" and rd[0][3]["s"] == "assign" and rd[0][3]["rv"]["k"] in ("ref", "rawptr"):
                                apply_rest(rd[0][3]["rv"]["place"], True)
                                continue
                        apply_rest(pl, False)
                    elif rv["k"] in ("ref", "rawptr"):
                        apply_rest(rv["place"], True)
                    else:
                        add_local(base)
                continue
            for kind, bb, j, x in body.defs.get(base, []):
                if kind != "stmt" or x["s"] != "assign":
                    continue
                if x["lhs"]["p"]:
                    e = x["lhs"]["p"][0]
                    if isinstance(e, dict) and e.get("f") == fld:
                        rv = x["rv"]
                        if rv["k"] in ("use", "cast"):
                            add_op(rv["op"])
                        elif rv["k"] in ("ref", "rawptr"):
                            add_place(rv["place"])
                        else:
                            add_local(base)
                    continue
                rv = x["rv"]
                if rv["k"] == "agg" and fld < len(rv["ops"]):
                    if rv.get("agg") == "adt":
                        sl.aggs.add((strip_generics(rv["adt"]), rv["variant"]))
                    add_op(rv["ops"][fld])
                elif rv["k"] == "use":
                    pl = op_place(rv["op"])
                    if pl is not None and not pl["p"] and _only_agg_defs(body, pl["l"]):
                        key = (pl["l"], fld)
                        if key not in seen:
                            seen.add(key)
                            dq.append(key)
                    else:
                        add_op(rv["op"])
            continue
        sl.locals.add(l)
        for kind, bb, j, x in body.defs.get(l, []):
            if kind == "call":
                cs = CallSite(body, bb, x)
                sl.calls.append(cs)
                if is_opaque(cs):
                    sl.leaves.add("call:%s" % cs.name)
                    if through:
                        # record the workspace call as a leaf AND keep following what was given to it
                        for a in cs.args:
                            add_op(a)
                else:
                    sl.via.add(cs.name)
                    for a in cs.args:
                        add_op(a)
                continue
            st = x
            if st["s"] != "assign":
                continue
            rv = st["rv"]
            k = rv["k"]
            if k in ("use", "cast", "repeat"):
                add_op(rv["op"])
                if k == "cast":
                    sl.via.add("cast:%s" % rv["ck"].split("(")[0])
            elif k in ("ref", "rawptr", "discr"):
                add_place(rv["place"])
            elif k == "binop":
                sl.via.add("binop:%s" % rv["op"])
                add_op(rv["a"])
                add_op(rv["b"])
            elif k == "unop":
                sl.via.add("unop:%s" % rv["op"])
                add_op(rv["a"])
            elif k == "agg":
                if rv.get("agg") in ("closure", "coroutine", "coroutine_closure"):
                    sl.leaves.add("closure:%s" % rv["def"])
                if rv.get("agg") == "adt":
                    a = strip_generics(rv["adt"])
                    sl.aggs.add((a, rv["variant"]))
                    if not rv["ops"]:
                        sl.leaves.add("const:%s::%s" % (a, rv["variant"]))
                        sl.consts.append({"adt": a, "variant": rv["variant"], "pp": "%s::%s" % (a, rv["variant"])})
                for o in rv["ops"]:
                    add_op(o)
        for cs, pos in mutdefs.get(l, []):
            sl.calls.append(cs)
            if is_opaque(cs):
                sl.leaves.add("call:%s" % cs.name)
                continue
            sl.via.add(cs.name)
            for j, a in enumerate(cs.args):
                if j != pos:
                    add_op(a)
    return sl


def _clone_source(body, l):
    """M when local l is defined once, as `Clone::clone(&M)` / `to_owned(&M)` (possibly through one `&M` temporary)"""
    ds = body.defs.get(l, [])
    if len(ds) != 1 or ds[0][0] != "call":
        return None
    t = ds[0][3]
    if strip_generics(t.get("fn") or "") not in ("core::clone::Clone::clone", "alloc::borrow::ToOwned::to_owned") or not t.get("args"):
        return None
    a = op_place(t["args"][0])
    if a is None or a["p"]:
        return None
    rd = body.defs.get(a["l"], [])
    if len(rd) == 1 and rd[0][0] == "stmt" and rd[0][3]["s"] == "assign" and rd[0][3]["rv"]["k"] == "ref" and not rd[0][3]["rv"]["place"]["p"]:
        return rd[0][3]["rv"]["place"]["l"]
    return None


def _only_agg_defs(body, l):
    """True when every definition of local l is an aggregate construction, a whole move of such a local, or a field
    assignment — i.e. the local's fields can be followed individually"""
    ds = body.defs.get(l, [])
    if not ds:
        return False
    for kind, bb, j, x in ds:
        if kind != "stmt" or x["s"] != "assign":
            return False
        if x["lhs"]["p"]:
            e = x["lhs"]["p"][0]
            if not (isinstance(e, dict) and "f" in e and len(x["lhs"]["p"]) == 1):
                return False
            continue
        rv = x["rv"]
        if rv["k"] == "agg" and rv.get("agg") in ("tuple", "adt", "array"):
            continue
        if rv["k"] == "use":
            pl = op_place(rv["op"])
            if pl is not None and not pl["p"] and pl["l"] != l and _only_agg_defs_shallow(body, pl["l"]):
                continue
        return False
    return True


def _only_agg_defs_shallow(body, l):
    ds = body.defs.get(l, [])
    return bool(ds) and all(kind == "stmt" and x["s"] == "assign" and not x["lhs"]["p"] and x["rv"]["k"] == "agg" for kind, bb, j, x in ds)


def arg_origins(cs, i, **kw):
    return origins(cs.body, cs.args[i], **kw)


def async_param_map(prog, coroutine_body):
    """For the coroutine body of an `async fn`: upvar index -> parameter index (0-based) of the fn, by the
    `_0 = Coroutine(def, [move _1, move _2, …])` aggregate in the parent fn body."""
    parent = prog.body(coroutine_body.parent) if coroutine_body.parent else None
    if parent is None:
        return {}
    for b in parent.blocks:
        for st in b["stmts"]:
            if st["s"] == "assign" and st["rv"]["k"] == "agg" and st["rv"].get("def") == coroutine_body.key:
                m = {}
                for i, o in enumerate(st["rv"]["ops"]):
                    l = op_local(o)
                    if l is not None and 1 <= l <= parent.arg_count:
                        m[i] = l - 1
                return m
    return {}


def closure_captures_of(parent_body, closure_key):
    """operands captured when `closure_key` is created in parent_body: list of operand dicts (upvar order)"""
    for b in parent_body.blocks:
        if b.get("cleanup"):
            continue
        for st in b["stmts"]:
            if st["s"] == "assign" and st["rv"]["k"] == "agg" and st["rv"].get("def") == closure_key:
                return st["rv"]["ops"], st
    return None, None
